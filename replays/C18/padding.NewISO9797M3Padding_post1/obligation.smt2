; obligation padding.NewISO9797M3Padding/post1
; 8 <= blockSize && blockSize <= 255
; expect unsat
(set-option :produce-models true)
(set-logic ALL)
(declare-fun blockSize!1 () Int)
(define-fun n!24 () Bool (<= blockSize!1 255))
(assert (<= 0 blockSize!1))
(assert (<= blockSize!1 18446744073709551615))
(assert (not (= blockSize!1 0)))
(assert n!24)
(assert (not (and (<= 8 blockSize!1) n!24)))
(check-sat)
(get-model)
