package main

import (
	"fmt"
	"go/types"
	"math/big"
	"os"
	"path/filepath"
	"regexp"
	"sort"
	"strings"
	"time"

	"golang.org/x/tools/go/ssa"
)

// ---------- function exit

func (x *Exec) atReturn(st *State, fr *Frame, res []Value, v *ssa.Return) {
	b := x.b
	ct := fr.contract
	x.returns = append(x.returns, st)
	if len(st.frames) == 1 && v != nil {
		x.returnSites[v] = append(x.returnSites[v], st)
	}
	if ct == nil {
		return
	}
	ctx := x.specCtx(st, fr)
	rn := resultNames(fr.fn.Signature)
	for i, ns := range rn {
		for _, n := range ns {
			ctx.names[n] = res[i]
		}
	}
	ctx.fr = nil // post-conditions speak about entry values of parameters and results only
	for _, gs := range ct.GhostSets {
		x.applyGhostSet(ctx, gs)
	}
	for _, n := range ct.Fresh {
		if rv, ok := ctx.names[n]; ok {
			g := b.Lt(objOf(rv), b.Int(0))
			if ct.FreshOrNil[n] {
				g = b.Le(objOf(rv), b.Int(0))
			}
			x.addObl(st, "post:fresh:"+n, "", nil, g, "result "+n+" is newly allocated")
		}
	}
	for i, e := range ct.Ensures {
		g := x.evalBool(ctx, e)
		x.addObl(st, fmt.Sprintf("post%d", i+1), "", nil, g, e.String())
	}
	// frame: every heap changed on this path
	if ct.ModAll {
		return
	}
	var locs []Loc
	for _, m := range ct.Modifies {
		locs = append(locs, x.evalLoc(ctx, m)...)
	}
	for _, gs := range ct.GhostSets {
		octx := *ctx
		octx.st = ctx.oldState()
		locs = append(locs, Loc{Heap: "G_" + gs.Heap, Sort: SArr(SInt, x.db.Ghosts[gs.Heap]), Obj: objOf(x.eval(&octx, gs.Obj))})
	}
	var names []string
	for h := range st.dirty {
		names = append(names, h)
	}
	sort.Strings(names)
	wholeOK := map[string]bool{}
	for _, h := range ct.ModHeaps {
		wholeOK[h] = true
	}
	for _, h := range names {
		srt := x.heapSorts[h]
		cur := st.heaps[h]
		pre := fr.pre.lookup(x, h, srt)
		if cur == pre {
			continue
		}
		if base, _, _ := strings.Cut(h, "#"); wholeOK[h] || wholeOK[base] {
			continue
		}
		// decompose store chains over the entry heap: only the stored-to objects can differ
		{
			t := cur
			var objs []*Term
			seenObj := map[*Term]bool{}
			for t.Op == "store" {
				if !seenObj[t.Args[1]] {
					seenObj[t.Args[1]] = true
					objs = append(objs, t.Args[1])
				}
				t = t.Args[0]
			}
			if t == pre && len(objs) > 0 && len(objs) <= 12 {
				es := arrElem(srt)
				var parts []*Term
				for _, o := range objs {
					if o.IsLit() && o.Val.Sign() <= 0 {
						continue // memory allocated by this activation
					}
					var part *Term
					if strings.HasPrefix(es, "(Array ") {
						i := b.Var("i!f", SInt)
						var allowed []*Term
						for _, l := range locs {
							if l.Heap != h {
								continue
							}
							if l.Lo == nil {
								allowed = append(allowed, b.Eq(o, l.Obj))
							} else {
								allowed = append(allowed, b.And(b.Eq(o, l.Obj), b.Le(l.Lo, i), b.Lt(i, l.Hi)))
							}
						}
						same := b.Eq(b.Select(b.Select(cur, o), i), b.Select(b.Select(pre, o), i))
						part = b.Forall([]*Term{i}, b.Or(append(allowed, same)...))
					} else {
						var allowed []*Term
						for _, l := range locs {
							if l.Heap == h {
								allowed = append(allowed, b.Eq(o, l.Obj))
							}
						}
						part = b.Or(append(allowed, b.Eq(b.Select(cur, o), b.Select(pre, o)))...)
					}
					parts = append(parts, b.Implies(b.Lt(b.Int(0), o), part))
				}
				x.addObl(st, "frame:"+h, "", nil, b.And(parts...), "only declared locations of "+h+" change")
				continue
			}
		}
		r := b.Var("r!f", SInt)
		es := arrElem(srt)
		var goal *Term
		if strings.HasPrefix(es, "(Array ") {
			i := b.Var("i!f", SInt)
			var allowed []*Term
			for _, l := range locs {
				if l.Heap != h {
					continue
				}
				if l.Lo == nil {
					allowed = append(allowed, b.Eq(r, l.Obj))
				} else {
					allowed = append(allowed, b.And(b.Eq(r, l.Obj), b.Le(l.Lo, i), b.Lt(i, l.Hi)))
				}
			}
			same := b.Eq(b.mk("select", arrElem(es), "", nil, b.mk("select", es, "", nil, cur, r), i),
				b.mk("select", arrElem(es), "", nil, b.mk("select", es, "", nil, pre, r), i))
			goal = b.Forall([]*Term{r, i}, b.Implies(b.Lt(b.Int(0), r), b.Or(append(allowed, same)...)))
		} else {
			var allowed []*Term
			for _, l := range locs {
				if l.Heap == h {
					allowed = append(allowed, b.Eq(r, l.Obj))
				}
			}
			same := b.Eq(b.mk("select", es, "", nil, cur, r), b.mk("select", es, "", nil, pre, r))
			goal = b.Forall([]*Term{r}, b.Implies(b.Lt(b.Int(0), r), b.Or(append(allowed, same)...)))
		}
		x.addObl(st, "frame:"+h, "", nil, goal, "only declared locations of "+h+" change")
	}
}

// ---------- verification of one function in one configuration

type FuncResult struct {
	Key      string
	Label    string
	Cfg      string
	Mode     string
	Contract *Contract
	Obls     []*Obligation
	Errors   []string
	Trusted  []string
	Havocked []string
	Inlined  []string
	Notes    []string
	Paths    int
	Returns  int
}

func (x *Exec) setupEntry() (*State, error) {
	fn, ct := x.fn, x.contract
	b := x.b
	st := x.newState()
	var facts []*Term
	var args []Value
	for _, p := range fn.Params {
		v := x.symbolic(p.Type(), p.Name(), &facts)
		if pv, ok := v.(PtrV); ok && !(ct != nil && ct.Nullable[p.Name()]) {
			facts = append(facts, b.mk("<", SBool, "", nil, b.Int(0), pv.Obj))
			b.SetBounds(pv.Obj, big.NewInt(1), nil)
		}
		args = append(args, v)
	}
	var binds []Value
	for _, fv := range fn.FreeVars {
		v := x.symbolic(fv.Type(), fv.Name(), &facts)
		if pv, ok := v.(PtrV); ok {
			facts = append(facts, b.mk("<", SBool, "", nil, b.Int(0), pv.Obj))
		}
		binds = append(binds, v)
	}
	fr := x.pushFrame(st, fn, args, nil, binds)
	fr.contract = ct
	x.entry = map[string]Value{}
	for k, v := range fr.params {
		x.entry[k] = v
	}
	for _, f := range facts {
		st.assume(f)
	}
	fr.pre = st.snapshot()
	if ct != nil {
		ctx := x.specCtx(st, fr)
		fr.lets = map[string]Value{}
		for _, l := range ct.Lets {
			v := x.eval(ctx, l.E)
			fr.lets[l.Name] = v
			ctx.names[l.Name] = v
		}
		var reqs []*Term
		for _, r := range ct.Requires {
			reqs = append(reqs, x.evalBool(ctx, r))
		}
		for _, r := range reqs {
			st.assume(r)
		}
		// configurations that name an entry expression: this run is the case expr == value
		for _, cs := range ct.Configs {
			if cs.Alias != nil {
				if v, ok := x.cfgVals[cs.Name]; ok {
					eq := x.b.Eq(x.evalInt(ctx, cs.Alias), x.b.Int(v))
					st.assume(eq)
					reqs = append(reqs, eq)
				}
			}
		}
		x.userAsserts(st, fr, callName{"@entry", 1}, false)
		// bounds stated by requires hold on every path: let the simplifier use them from now on
		// (the solver has the facts themselves in the path condition)
		for _, r := range reqs {
			x.learnBounds(r)
		}
		// requires may have touched heaps lazily: they are entry heaps
		fr.pre = st.snapshot()
	}
	return st, nil
}

func VerifyFunc(prog *Program, db *ContractDB, fn *ssa.Function, ct *Contract, cfg string, cfgVals map[string]int64) (res *FuncResult) {
	x := NewExec(prog, db, fn, ct, cfg)
	for k, v := range cfgVals {
		x.cfgVals[k] = v
	}
	res = &FuncResult{Key: FuncKey(fn), Label: shortPkg(FuncKey(fn)), Cfg: cfg, Contract: ct, Mode: "arith"}
	if x.mode == ModeBits {
		res.Mode = "bits"
	}
	defer func() {
		if r := recover(); r != nil {
			switch e := r.(type) {
			case specErr:
				if strings.HasPrefix(e.msg, "unknown identifier ") && ct != nil {
					// a clause names a local variable the function no longer has (the code was
					// restructured under the contract): like a missing loop or a call anchor that is
					// never reached this is a failed structural obligation, not an engine error
					x.obls = append(x.obls, &Obligation{Name: fmt.Sprintf("%s/anchor:ident %s", res.Label, strings.Trim(strings.TrimPrefix(e.msg, "unknown identifier "), "\"")), Func: res.Label, Kind: "anchor",
						Goal: x.b.False(), Bank: x.b, Info: "the contract names a variable the function does not have: " + e.msg, Property: propsOf(ct)})
				} else {
					res.Errors = append(res.Errors, "contract error: "+e.msg)
				}
			case unsupportedErr:
				res.Errors = append(res.Errors, e.Error())
			default:
				panic(r)
			}
		}
		res.Obls = x.obls
		res.Errors = append(res.Errors, x.errs...)
		res.Paths = x.paths
		res.Returns = len(x.returns)
		res.Trusted = keys(x.trusted)
		res.Havocked = keys(x.havocked)
		res.Inlined = keys(x.inlined)
		res.Notes = keys(x.notes)
		x.finishObligations(res)
	}()
	// loop ordinals named in the contract must exist
	if ct != nil {
		nl := len(x.loopsOf(fn))
		missing := false
		for n := range ct.Loops {
			if n < 1 || n > nl {
				// the loop a clause speaks about is gone: a failed structural obligation (like a
				// call anchor that is never reached), not an engine error
				missing = true
				x.obls = append(x.obls, &Obligation{Name: fmt.Sprintf("%s/anchor:loop %d", res.Label, n), Func: res.Label, Kind: "anchor",
					Goal: x.b.False(), Bank: x.b, Info: fmt.Sprintf("the contract names loop %d but the function has %d loops", n, nl), Property: propsOf(ct)})
			}
		}
		if missing {
			return
		}
	}
	st, err := x.setupEntry()
	if err != nil {
		res.Errors = append(res.Errors, err.Error())
		return
	}
	// vacuity: the precondition is satisfiable
	var prefs []*Term
	{
		qc := map[*Term]bool{}
		for _, f := range st.pc {
			if !hasQuant(f, qc) {
				prefs = append(prefs, f)
			}
		}
	}
	x.obls = append(x.obls, &Obligation{Name: x.oblName(st, "cover:pre", "", nil), Func: res.Label, Kind: "cover",
		Assume: prefs, Bank: x.b, Expect: "sat", Info: "precondition is satisfiable", Property: propsOf(ct)})
	x.paths = 1
	x.work = []*State{st}
	x.deadline = time.Now().Add(400 * time.Second)
	x.run()
	if len(x.errs) == 0 && ct != nil {
		// every "assert/apply ... call f#k" clause must have met its anchor on some path
		for i, a := range ct.Asserts {
			if a.Callee == "*" || x.assertFired[ct.Key+"#"+fmt.Sprint(i)] {
				continue
			}
			when := "before"
			if a.After {
				when = "after"
			}
			x.obls = append(x.obls, &Obligation{Name: x.oblName(st, fmt.Sprintf("anchor:%s %s#%d.%d", when, a.Callee, a.Ord, i+1), "", nil), Func: res.Label, Kind: "anchor",
				Goal: x.b.False(), Bank: x.b, Info: "the call this clause is anchored to is never reached", Property: propsOf(ct)})
		}
	}
	if len(x.errs) == 0 {
		// vacuity: some return (or declared panic) is reachable
		var cands []*State
		cands = append(cands, x.returns...)
		cands = append(cands, x.panics...)
		if len(cands) == 0 {
			x.errs = append(x.errs, "no return reachable")
		} else {
			// reachable-return cover: disjunction of (up to 8) path conditions; quantified facts
			// are left out (satisfiability with quantifiers is out of the solvers' reach), so this
			// guards against contradictions in the quantifier-free part of requires/assumed ensures
			qcache := map[*Term]bool{}
			var ds []*Term
			for i, c := range cands {
				if i >= 8 {
					break
				}
				var fs []*Term
				for _, f := range c.pc {
					if !x.defFacts[f] {
						fs = append(fs, x.qfPart(f, qcache))
					}
				}
				ds = append(ds, x.b.And(fs...))
			}
			x.obls = append(x.obls, &Obligation{Name: x.oblName(st, "cover:return", "", nil), Func: res.Label, Kind: "cover",
				Assume: []*Term{x.b.Or(ds...)}, Bank: x.b, Expect: "sat", Info: "a return is reachable under the assumed contracts", Property: propsOf(ct)})
			// and so is every return statement of the function: an assumed contract that
			// contradicts itself or the code silences everything behind it
			if ct != nil && ct.CoverReturns {
				for _, blk := range fn.Blocks {
					for _, in := range blk.Instrs {
						rv, ok := in.(*ssa.Return)
						if !ok {
							continue
						}
						var rs []*Term
						for i, c := range x.returnSites[rv] {
							if i >= 4 {
								break
							}
							var fs []*Term
							for _, f := range c.pc {
								if !x.defFacts[f] {
									fs = append(fs, x.qfPart(f, qcache))
								}
							}
							rs = append(rs, x.b.And(fs...))
						}
						line := x.prog.Fset.Position(rv.Pos()).Line
						x.obls = append(x.obls, &Obligation{Name: x.oblName(st, fmt.Sprintf("cover:return:L%d", line), "", nil), Func: res.Label, Kind: "cover",
							Assume: []*Term{x.b.Or(rs...)}, Bank: x.b, Expect: "sat", Info: "this return statement is reachable under the assumed contracts", Property: propsOf(ct)})
					}
				}
			}
		}
	}
	return
}

func propsOf(ct *Contract) []string {
	if ct == nil {
		return nil
	}
	return ct.Properties
}

func keys(m map[string]bool) []string {
	var out []string
	for k := range m {
		out = append(out, k)
	}
	sort.Strings(out)
	return out
}

// finishObligations attaches prelude and axiom generators.
func (x *Exec) finishObligations(res *FuncResult) {
	pre := x.buildPrelude()
	extra := ""
	if x.usePow2 {
		extra += pow2Def()
	}
	for _, o := range x.obls {
		o.Prelude = extra
		o.Axioms = x.groundAxioms
		o.chunks = pre
	}
}

// groundAxioms instantiates the memory-model axioms for the terms that occur in a script.
func (x *Exec) groundAxioms(seen map[*Term]bool) []*Term {
	b := x.b
	var ts []*Term
	for t := range seen {
		ts = append(ts, t)
	}
	sort.Slice(ts, func(i, j int) bool { return ts[i].id < ts[j].id })
	var out []*Term
	var globs []*Term
	// byte-range facts of instantiated heap cells are only needed where the xor axioms of the spec
	// library (guarded by the operand range) are in play; elsewhere they only cost solver time, so a
	// contract asks for them with the clause "cellranges"
	usesXor := x.contract != nil && x.contract.CellRanges
	tagOf := map[string]int64{}
	tagID := func(name string) *Term {
		id, ok := tagOf[name]
		if !ok {
			// stable numbering by name
			var names []string
			for n := range x.subFuncs {
				names = append(names, n)
			}
			for n := range x.elemFuncs {
				names = append(names, n)
			}
			sort.Strings(names)
			for i, n := range names {
				tagOf[n] = int64(i + 1)
			}
			id = tagOf[name]
		}
		return b.Int(id)
	}
	for _, t := range ts {
		if t.bound {
			continue
		}
		switch {
		case t.Op == "app" && x.subFuncs[t.Name]:
			a := t.Args[0]
			out = append(out, b.mk("=>", SBool, "", nil, b.mk("<", SBool, "", nil, b.Int(0), a), b.mk("<", SBool, "", nil, b.Int(0), t)))
			out = append(out, b.mk("=>", SBool, "", nil, b.mk("<", SBool, "", nil, a, b.Int(0)), b.mk("<", SBool, "", nil, t, b.Int(0))))
			out = append(out, b.mk("=", SBool, "", nil, b.App("tag!", SInt, t), tagID(t.Name)))
			out = append(out, b.mk("=", SBool, "", nil, b.App("inv!"+t.Name, SInt, t), a))
		case t.Op == "app" && x.elemFuncs[t.Name]:
			a, i := t.Args[0], t.Args[1]
			out = append(out, b.mk("=>", SBool, "", nil, b.mk("<", SBool, "", nil, b.Int(0), a), b.mk("<", SBool, "", nil, b.Int(0), t)))
			out = append(out, b.mk("=>", SBool, "", nil, b.mk("<", SBool, "", nil, a, b.Int(0)), b.mk("<", SBool, "", nil, t, b.Int(0))))
			out = append(out, b.mk("=", SBool, "", nil, b.App("tag!", SInt, t), tagID(t.Name)))
			out = append(out, b.mk("=", SBool, "", nil, b.App("inv1!"+t.Name, SInt, t), a))
			out = append(out, b.mk("=", SBool, "", nil, b.App("inv2!"+t.Name, SInt, t), i))
		case t.Op == "select" && t.Sort == SInt:
			// what the simplifier knows about the range of a memory cell (by the element type of
			// its heap) is given to the solver too, for the ground cells that occur
			// (cells read by the program carry their range as a path assumption already)
			if lo, _ := b.Bounds(t); lo != nil {
				break
			}
			if hi := unsignedHeapCellMax(t); hi != nil && usesXor {
				// a ground cell of an unsigned element heap that was produced by instantiating a
				// quantified clause (reads under a bound variable carry no range fact of their own)
				out = append(out, b.mk("<=", SBool, "", nil, b.Int(0), t))
				out = append(out, b.mk("<=", SBool, "", nil, t, b.IntB(hi)))
			}
		case t.Op == "const" && strings.HasPrefix(t.Name, "glob:"):
			globs = append(globs, t)
			out = append(out, b.mk("<", SBool, "", nil, b.Int(0), t))
			out = append(out, b.mk("=", SBool, "", nil, b.App("tag!", SInt, t), b.Int(0)))
		}
	}
	// byte decomposition of 64-bit values
	byteOf := map[*Term]bool{}
	for _, t := range ts {
		if t.Op == "app" && strings.HasPrefix(t.Name, "byte!") && !t.bound {
			byteOf[t.Args[0]] = true
		}
	}
	var bvs []*Term
	for v := range byteOf {
		bvs = append(bvs, v)
	}
	sort.Slice(bvs, func(i, j int) bool { return bvs[i].id < bvs[j].id })
	for _, v := range bvs {
		sum := []*Term{}
		for k := 0; k < 8; k++ {
			bk := b.App(fmt.Sprintf("byte!%d", k), SInt, v)
			out = append(out, b.mk("<=", SBool, "", nil, b.Int(0), bk), b.mk("<=", SBool, "", nil, bk, b.Int(255)))
			if k == 0 {
				sum = append(sum, bk)
			} else {
				sum = append(sum, b.mk("*", SInt, "", nil, b.IntB(pow2(uint(8*k))), bk))
			}
		}
		out = append(out, b.mk("=", SBool, "", nil, v, b.mk("+", SInt, "", nil, sum...)))
	}
	for i := 0; i < len(globs); i++ {
		for j := i + 1; j < len(globs); j++ {
			out = append(out, b.mk("not", SBool, "", nil, b.mk("=", SBool, "", nil, globs[i], globs[j])))
		}
	}
	return out
}

// ---------- prelude (spec library) handling

type preludeChunk struct {
	text    string
	defines []string
	uses    map[string]bool
	axiom   bool
}

type preludeInfo struct {
	chunks  []*preludeChunk
	text    string
	defined map[string]bool
	byName  map[string]*preludeChunk
}

var reDefHead = regexp.MustCompile(`^\(\s*(declare-fun|define-fun|define-fun-rec|declare-sort|declare-const|define-sort|declare-datatypes|declare-datatype)\s+([^\s()]+)`)
var reSym = regexp.MustCompile(`[A-Za-z_!$.][A-Za-z0-9_!$.\-]*`)

func splitSexprs(s string) []string {
	var out []string
	depth := 0
	start := -1
	inComment := false
	for i := 0; i < len(s); i++ {
		c := s[i]
		if inComment {
			if c == '\n' {
				inComment = false
			}
			continue
		}
		switch c {
		case ';':
			inComment = true
		case '(':
			if depth == 0 {
				start = i
			}
			depth++
		case ')':
			depth--
			if depth == 0 && start >= 0 {
				out = append(out, s[start:i+1])
				start = -1
			}
		}
	}
	return out
}

var specFilesCache []*preludeChunk

func loadSpecChunks(verif string, extra []string) []*preludeChunk {
	var chunks []*preludeChunk
	files, _ := filepath.Glob(filepath.Join(verif, "specs", "*.smt2"))
	sort.Strings(files)
	var texts []string
	for _, f := range files {
		data, err := os.ReadFile(f)
		if err == nil {
			texts = append(texts, string(data))
		}
	}
	texts = append(texts, extra...)
	for _, t := range texts {
		for _, sx := range splitSexprs(t) {
			c := &preludeChunk{text: sx, uses: map[string]bool{}}
			if m := reDefHead.FindStringSubmatch(sx); m != nil {
				c.defines = []string{m[2]}
			} else {
				c.axiom = true
			}
			for _, sym := range reSym.FindAllString(sx, -1) {
				c.uses[sym] = true
			}
			chunks = append(chunks, c)
		}
	}
	return chunks
}

func (x *Exec) buildPrelude() *preludeInfo {
	if specFilesCache == nil {
		specFilesCache = loadSpecChunks(verifDir, x.db.Prelude)
	}
	pi := &preludeInfo{chunks: specFilesCache, defined: map[string]bool{}, byName: map[string]*preludeChunk{}}
	for _, c := range pi.chunks {
		for _, d := range c.defines {
			pi.defined[d] = true
			pi.byName[d] = c
		}
	}
	return pi
}

// selectPrelude returns the prelude text needed for a script that uses the given symbols.
func (pi *preludeInfo) selectFor(used map[string]bool) string {
	need := map[*preludeChunk]bool{}
	var add func(c *preludeChunk)
	add = func(c *preludeChunk) {
		if need[c] {
			return
		}
		need[c] = true
		for u := range c.uses {
			if d := pi.byName[u]; d != nil && d != c {
				add(d)
			}
		}
	}
	for u := range used {
		if c := pi.byName[u]; c != nil {
			add(c)
		}
	}
	// axioms whose defined-symbol uses intersect the needed set
	changed := true
	for changed {
		changed = false
		for _, c := range pi.chunks {
			if !c.axiom || need[c] {
				continue
			}
			hit := false
			for u := range c.uses {
				if d := pi.byName[u]; d != nil && need[d] {
					hit = true
					break
				}
			}
			if hit {
				add(c)
				changed = true
			}
		}
	}
	var sb strings.Builder
	for _, c := range pi.chunks {
		if need[c] {
			sb.WriteString(c.text)
			sb.WriteByte('\n')
		}
	}
	return sb.String()
}

var _ = types.Typ

func pow2Def() string {
	var sb strings.Builder
	sb.WriteString("(define-fun pow2 ((n Int)) Int ")
	for i := 0; i <= 64; i++ {
		fmt.Fprintf(&sb, "(ite (= n %d) %s ", i, pow2(uint(i)).String())
	}
	sb.WriteString("0")
	sb.WriteString(strings.Repeat(")", 65))
	sb.WriteString(")\n")
	return sb.String()
}

// learnBounds records literal bounds on symbols implied by a fact that holds on all paths.
func (x *Exec) learnBounds(t *Term) {
	b := x.b
	switch t.Op {
	case "and":
		for _, a := range t.Args {
			x.learnBounds(a)
		}
	case "<=", "<":
		l, r := t.Args[0], t.Args[1]
		adj := int64(0)
		if t.Op == "<" {
			adj = 1
		}
		isSym := func(s *Term) bool { return s.Op == "const" || s.Op == "select" || s.Op == "app" }
		if l.Op == "int" && isSym(r) {
			lo := new(big.Int).Add(l.Val, big.NewInt(adj))
			if cur, ok := b.symLo[r]; !ok || cur.Cmp(lo) < 0 {
				b.symLo[r] = lo
				b.bcache = map[*Term][2]*big.Int{}
			}
		}
		if r.Op == "int" && isSym(l) {
			hi := new(big.Int).Sub(r.Val, big.NewInt(adj))
			if cur, ok := b.symHi[l]; !ok || cur.Cmp(hi) > 0 {
				b.symHi[l] = hi
				b.bcache = map[*Term][2]*big.Int{}
			}
		}
	case "=":
		l, r := t.Args[0], t.Args[1]
		if l.Op == "int" {
			l, r = r, l
		}
		if r.Op == "int" && (l.Op == "const" || l.Op == "select" || l.Op == "app") {
			b.symLo[l], b.symHi[l] = r.Val, r.Val
			b.bcache = map[*Term][2]*big.Int{}
			b.known[l] = r
		}
	}
}

// qfPart weakens a fact to its quantifier-free part: conjunctions and the right-hand sides of
// implications are taken apart, every other formula with a quantifier inside becomes true.
func (x *Exec) qfPart(t *Term, cache map[*Term]bool) *Term {
	if !hasQuant(t, cache) {
		return t
	}
	switch t.Op {
	case "and":
		var out []*Term
		for _, a := range t.Args {
			out = append(out, x.qfPart(a, cache))
		}
		return x.b.And(out...)
	case "=>":
		if !hasQuant(t.Args[0], cache) {
			return x.b.Implies(t.Args[0], x.qfPart(t.Args[1], cache))
		}
	}
	return x.b.True()
}

func hasQuant(t *Term, cache map[*Term]bool) bool {
	if v, ok := cache[t]; ok {
		return v
	}
	r := t.Op == "forall" || t.Op == "exists"
	if !r {
		for _, a := range t.Args {
			if hasQuant(a, cache) {
				r = true
				break
			}
		}
	}
	cache[t] = r
	return r
}

// learnBoundsOf is learnBounds restricted to the given symbols.
func (x *Exec) learnBoundsOf(t *Term, syms map[*Term]bool) {
	b := x.b
	switch t.Op {
	case "and":
		for _, a := range t.Args {
			x.learnBoundsOf(a, syms)
		}
	case "<=", "<":
		l, r := t.Args[0], t.Args[1]
		adj := int64(0)
		if t.Op == "<" {
			adj = 1
		}
		if l.Op == "int" && syms[r] {
			lo := new(big.Int).Add(l.Val, big.NewInt(adj))
			if cur, ok := b.symLo[r]; !ok || cur.Cmp(lo) < 0 {
				b.symLo[r] = lo
				b.bcache = map[*Term][2]*big.Int{}
			}
		}
		if r.Op == "int" && syms[l] {
			hi := new(big.Int).Sub(r.Val, big.NewInt(adj))
			if cur, ok := b.symHi[l]; !ok || cur.Cmp(hi) > 0 {
				b.symHi[l] = hi
				b.bcache = map[*Term][2]*big.Int{}
			}
		}
	}
}

// unsignedHeapCellMax returns the largest value of a cell read from the heap of byte elements (the root
// of the array term is a heap constant H_u8...), or nil. Wider element types are left out on purpose:
// their cells occur in many queries that do not need the fact, and extra facts cost solver time.
func unsignedHeapCellMax(t *Term) *big.Int {
	a := t.Args[0]
	for a.Op == "select" || a.Op == "store" {
		a = a.Args[0]
	}
	if a.Op != "const" {
		return nil
	}
	for _, k := range []struct {
		p string
		w uint
	}{{"H_u8", 8}} {
		if strings.HasPrefix(a.Name, k.p+"@") || strings.HasPrefix(a.Name, k.p+"_") {
			return new(big.Int).Sub(new(big.Int).Lsh(big.NewInt(1), k.w), big.NewInt(1))
		}
	}
	return nil
}
