package main

// Symbolic values and the component memory model (DESIGN §2.3).

import (
	"fmt"
	"go/types"
	"math/big"
	"strings"
	"sync"

	"golang.org/x/tools/go/ssa"
)

type Value interface{}

// SnapV is a memory state captured by the spec builtin state().
type SnapV struct{ Snap *Snapshot }

type SliceV struct {
	Obj, Off, Len, Cap *Term
	Elem               types.Type
}

// PtrV is a pointer. Struct/array pointers have Off==0 / element offset; pointers to a scalar
// struct field carry FieldOf (struct type) and Field index instead of an element offset.
type PtrV struct {
	Obj, Off *Term
	Elem     types.Type    // pointee type
	FieldOf  *types.Struct // non-nil: Obj is the struct object and the pointee is its field #Field
	FieldIdx int
	FieldTy  string // heap-name prefix of the owning struct type
}

type StructV struct {
	T      types.Type // named or struct type
	Fields []Value
	Ghost  map[string]*Term // ghost fields declared for the type (copied with the value)
}

type ArrayV struct {
	Arr   *Term   // SMT array Int->elem for scalar elements, nil when Elems is used
	Elems []Value // composite elements (small arrays of structs/arrays/slices)
	N     int64
	Elem  types.Type
}

type IfaceV struct {
	Typ, Val *Term      // Typ==0 <=> nil interface
	Dyn      types.Type // statically known dynamic type (nil if unknown)
	Concrete Value
	T        types.Type // static interface type
}

type TupleV []Value

type FuncV struct {
	Fn       *ssa.Function
	Bindings []Value
	ID       *Term // opaque identity when Fn is unknown
	Builtin  *ssa.Builtin
}

type StringV struct {
	Len *Term
	Lit *string
	Obj *Term // byte content lives in H_u8[Obj] from offset Off when Obj != nil
	Off *Term
}

type MapV struct{ ID *Term }

type OpaqueV struct {
	T  types.Type
	ID *Term
}

var big1 = big.NewInt(1)

func pow2(n uint) *big.Int { return new(big.Int).Lsh(big1, n) }

const maxLenLog = 40 // assumption: no slice has more than 2^40 elements

// ---------- type classification

type scalarKind struct {
	name   string // heap suffix: u8 i8 u16 i16 u32 i32 u64 i64 int uint uptr bool
	bits   int    // 0 for bool
	signed bool
}

func basicKind(t types.Type) (scalarKind, bool) {
	b, ok := t.Underlying().(*types.Basic)
	if !ok {
		return scalarKind{}, false
	}
	switch b.Kind() {
	case types.Bool, types.UntypedBool:
		return scalarKind{"bool", 0, false}, true
	case types.Int8:
		return scalarKind{"i8", 8, true}, true
	case types.Int16:
		return scalarKind{"i16", 16, true}, true
	case types.Int32, types.UntypedRune:
		return scalarKind{"i32", 32, true}, true
	case types.Int64:
		return scalarKind{"i64", 64, true}, true
	case types.Int, types.UntypedInt:
		return scalarKind{"int", 64, true}, true
	case types.Uint8:
		return scalarKind{"u8", 8, false}, true
	case types.Uint16:
		return scalarKind{"u16", 16, false}, true
	case types.Uint32:
		return scalarKind{"u32", 32, false}, true
	case types.Uint64:
		return scalarKind{"u64", 64, false}, true
	case types.Uint:
		return scalarKind{"uint", 64, false}, true
	case types.Uintptr:
		return scalarKind{"uptr", 64, false}, true
	}
	return scalarKind{}, false
}

func (k scalarKind) lo() *big.Int {
	if k.bits == 0 || !k.signed {
		return new(big.Int)
	}
	return new(big.Int).Neg(pow2(uint(k.bits - 1)))
}
func (k scalarKind) hi() *big.Int {
	if k.bits == 0 {
		return big.NewInt(1)
	}
	if k.signed {
		return new(big.Int).Sub(pow2(uint(k.bits-1)), big1)
	}
	return new(big.Int).Sub(pow2(uint(k.bits)), big1)
}

func typeName(t types.Type) string {
	switch x := t.(type) {
	case *types.Named:
		if x.Obj().Pkg() != nil {
			return shortPkg(x.Obj().Pkg().Path()) + "." + x.Obj().Name()
		}
		return x.Obj().Name()
	case *types.Alias:
		return typeName(types.Unalias(x))
	case *types.Pointer:
		return "ptr_" + typeName(x.Elem())
	}
	return sanitize(t.String())
}

func isStructT(t types.Type) bool { _, ok := t.Underlying().(*types.Struct); return ok }
func isArrayT(t types.Type) bool  { _, ok := t.Underlying().(*types.Array); return ok }

// ---------- the executor's mode-dependent sorts

type Mode int

const (
	ModeArith Mode = iota
	ModeBits
)

func (x *Exec) scalarSort(t types.Type) string {
	k, ok := basicKind(t)
	if !ok {
		return SInt
	}
	if k.bits == 0 {
		return SBool
	}
	if x.mode == ModeBits && k.name != "int" {
		return SBV(k.bits)
	}
	return SInt
}

// ---------- heap names

// elemHeap returns the heap name and element sort for arrays with scalar-like elements.
func (x *Exec) elemHeap(elem types.Type) (name string, esort string, ok bool) {
	switch u := elem.Underlying().(type) {
	case *types.Basic:
		if u.Info()&types.IsString != 0 {
			return "H_strlen", SInt, true
		}
		k, ok := basicKind(elem)
		if !ok {
			return "", "", false
		}
		return "H_" + k.name, x.scalarSort(elem), true
	case *types.Pointer:
		return "H_ptr", SInt, true
	case *types.Signature, *types.Map, *types.Chan:
		return "H_opq", SInt, true
	}
	return "", "", false
}

func (x *Exec) heapSortFor(name string, esort string) string { return SArr(SInt, SArr(SInt, esort)) }

func (st *State) heap(x *Exec, name, sort string) *Term {
	if h, ok := st.heaps[name]; ok {
		return h
	}
	h := x.b.Const(fmt.Sprintf("%s@%d", name, st.epoch), sort)
	st.heaps[name] = h
	x.heapSorts[name] = sort
	return h
}

// lookup returns the heap as it was when the snapshot was taken.
func (sn *Snapshot) lookup(x *Exec, name, sort string) *Term {
	if h, ok := sn.heaps[name]; ok {
		return h
	}
	x.heapSorts[name] = sort
	return x.b.Const(fmt.Sprintf("%s@%d", name, sn.epoch), sort)
}

func fieldHeapName(owner string, f *types.Var, suffix string) string {
	n := "F_" + owner + "." + f.Name()
	if suffix != "" {
		n += "#" + suffix
	}
	return n
}

// ownerName names the struct type that owns a field for heap naming.
func ownerName(t types.Type) string {
	// types defined as "type B A" share A's struct (conversions reinterpret the same memory), so
	// field heaps are named after one canonical owner per underlying struct
	if st, ok := t.Underlying().(*types.Struct); ok {
		ownerMu.Lock()
		defer ownerMu.Unlock()
		if n, ok := ownerCanon[st]; ok {
			return n
		}
		n := typeName(t)
		if named, ok := types.Unalias(t).(*types.Named); ok {
			// prefer the name of the type the struct literal belongs to (the root of the chain)
			n = typeName(named)
		}
		ownerCanon[st] = n
		return n
	}
	return typeName(t)
}

var ownerMu sync.Mutex
var ownerCanon = map[*types.Struct]string{}

// ---------- zero values and fresh symbolic values

func (x *Exec) zero(t types.Type) Value {
	switch u := t.Underlying().(type) {
	case *types.Basic:
		if u.Info()&types.IsString != 0 {
			s := ""
			return StringV{Len: x.b.Int(0), Lit: &s}
		}
		if u.Kind() == types.UnsafePointer {
			return PtrV{Obj: x.b.Int(0), Off: x.b.Int(0), Elem: types.Typ[types.Uint8]}
		}
		if u.Info()&types.IsFloat != 0 || u.Info()&types.IsComplex != 0 {
			return OpaqueV{T: t, ID: x.b.Int(0)}
		}
		s := x.scalarSort(t)
		switch {
		case s == SBool:
			return x.b.False()
		case s == SInt:
			return x.b.Int(0)
		default:
			return x.b.BV(new(big.Int), bvWidth(s))
		}
	case *types.Slice:
		z := x.b.Int(0)
		return SliceV{Obj: z, Off: z, Len: z, Cap: z, Elem: u.Elem()}
	case *types.Pointer:
		return PtrV{Obj: x.b.Int(0), Off: x.b.Int(0), Elem: u.Elem()}
	case *types.Struct:
		sv := StructV{T: t}
		for i := 0; i < u.NumFields(); i++ {
			sv.Fields = append(sv.Fields, x.zero(u.Field(i).Type()))
		}
		return sv
	case *types.Array:
		if _, es, ok := x.elemHeap(u.Elem()); ok {
			var z *Term
			switch {
			case es == SBool:
				z = x.b.False()
			case es == SInt:
				z = x.b.Int(0)
			default:
				z = x.b.BV(new(big.Int), bvWidth(es))
			}
			return ArrayV{Arr: x.b.ConstArr(SArr(SInt, es), z), N: u.Len(), Elem: u.Elem()}
		}
		av := ArrayV{N: u.Len(), Elem: u.Elem()}
		if u.Len() > 4096 {
			panic(unsupported("large array of composite elements"))
		}
		for i := int64(0); i < u.Len(); i++ {
			av.Elems = append(av.Elems, x.zero(u.Elem()))
		}
		return av
	case *types.Interface:
		return IfaceV{Typ: x.b.Int(0), Val: x.b.Int(0), T: t}
	case *types.Signature:
		return FuncV{ID: x.b.Int(0)}
	case *types.Map:
		return MapV{ID: x.b.Int(0)}
	case *types.Chan:
		return OpaqueV{T: t, ID: x.b.Int(0)}
	case *types.Tuple:
		var tv TupleV
		for i := 0; i < u.Len(); i++ {
			tv = append(tv, x.zero(u.At(i).Type()))
		}
		return tv
	}
	panic(unsupported("zero value of " + t.String()))
}

// symbolic creates an unconstrained value of type t named after prefix and returns the
// type-invariant facts that hold for every value of the type.
func (x *Exec) symbolic(t types.Type, prefix string, facts *[]*Term) Value {
	b := x.b
	switch u := t.Underlying().(type) {
	case *types.Basic:
		if u.Info()&types.IsString != 0 {
			l := b.Fresh(prefix+".len", SInt)
			b.SetBounds(l, new(big.Int), pow2(maxLenLog))
			*facts = append(*facts, b.Le(b.Int(0), l), b.Le(l, b.IntB(pow2(maxLenLog))))
			o := b.Fresh(prefix+".sobj", SInt)
			*facts = append(*facts, b.Lt(b.Int(0), o))
			return StringV{Len: l, Obj: o, Off: b.Int(0)}
		}
		if u.Kind() == types.UnsafePointer {
			return PtrV{Obj: b.Fresh(prefix+".uptr", SInt), Off: b.Int(0), Elem: types.Typ[types.Uint8]}
		}
		if u.Info()&types.IsFloat != 0 || u.Info()&types.IsComplex != 0 {
			return OpaqueV{T: t, ID: b.Fresh(prefix, SInt)}
		}
		s := x.scalarSort(t)
		c := b.Fresh(prefix, s)
		if s == SInt {
			k, _ := basicKind(t)
			b.SetBounds(c, k.lo(), k.hi())
			*facts = append(*facts, b.mk("<=", SBool, "", nil, b.IntB(k.lo()), c), b.mk("<=", SBool, "", nil, c, b.IntB(k.hi())))
		}
		return c
	case *types.Slice:
		sv := SliceV{Obj: b.Fresh(prefix+".obj", SInt), Off: b.Fresh(prefix+".off", SInt),
			Len: b.Fresh(prefix+".len", SInt), Cap: b.Fresh(prefix+".cap", SInt), Elem: u.Elem()}
		if x.noObjSign {
			// values returned by callees or loop-carried may denote memory allocated in this activation,
			// but not memory allocated later: ids only decrease, so obj >= the current allocation counter
			*facts = append(*facts, x.sliceInvLoaded(sv)...)
			*facts = append(*facts, b.mk("<=", SBool, "", nil, b.Int(x.allocFloor), sv.Obj))
			b.SetBounds(sv.Obj, big.NewInt(x.allocFloor), nil)
		} else {
			*facts = append(*facts, x.sliceInv(sv)...)
		}
		return sv
	case *types.Pointer:
		o := b.Fresh(prefix+".ptr", SInt)
		if !x.noObjSign {
			b.SetBounds(o, new(big.Int), nil)
			*facts = append(*facts, b.mk("<=", SBool, "", nil, b.Int(0), o))
		} else {
			b.SetBounds(o, big.NewInt(x.allocFloor), nil)
			*facts = append(*facts, b.mk("<=", SBool, "", nil, b.Int(x.allocFloor), o))
		}
		off := b.Int(0)
		if !isStructT(u.Elem()) && !isArrayT(u.Elem()) {
			// pointer to a scalar: may point into an array
			off = b.Fresh(prefix+".poff", SInt)
			b.SetBounds(off, new(big.Int), pow2(maxLenLog+1))
			*facts = append(*facts, b.mk("<=", SBool, "", nil, b.Int(0), off))
		} else if isArrayT(u.Elem()) {
			off = b.Fresh(prefix+".poff", SInt)
			b.SetBounds(off, new(big.Int), pow2(maxLenLog+1))
			*facts = append(*facts, b.mk("<=", SBool, "", nil, b.Int(0), off))
		}
		return PtrV{Obj: o, Off: off, Elem: u.Elem()}
	case *types.Struct:
		sv := StructV{T: t}
		for i := 0; i < u.NumFields(); i++ {
			sv.Fields = append(sv.Fields, x.symbolic(u.Field(i).Type(), prefix+"."+u.Field(i).Name(), facts))
		}
		return sv
	case *types.Array:
		if _, es, ok := x.elemHeap(u.Elem()); ok {
			a := b.Fresh(prefix+".arr", SArr(SInt, es))
			return ArrayV{Arr: a, N: u.Len(), Elem: u.Elem()}
		}
		av := ArrayV{N: u.Len(), Elem: u.Elem()}
		if u.Len() > 4096 {
			panic(unsupported("large array of composite elements"))
		}
		for i := int64(0); i < u.Len(); i++ {
			av.Elems = append(av.Elems, x.symbolic(u.Elem(), fmt.Sprintf("%s.%d", prefix, i), facts))
		}
		return av
	case *types.Interface:
		ty := b.Fresh(prefix+".ityp", SInt)
		b.SetBounds(ty, new(big.Int), nil)
		*facts = append(*facts, b.mk("<=", SBool, "", nil, b.Int(0), ty))
		return IfaceV{Typ: ty, Val: b.Fresh(prefix+".ival", SInt), T: t}
	case *types.Signature:
		return FuncV{ID: b.Fresh(prefix+".fn", SInt)}
	case *types.Map:
		return MapV{ID: b.Fresh(prefix+".map", SInt)}
	case *types.Chan:
		return OpaqueV{T: t, ID: b.Fresh(prefix+".chan", SInt)}
	case *types.Tuple:
		var tv TupleV
		for i := 0; i < u.Len(); i++ {
			tv = append(tv, x.symbolic(u.At(i).Type(), fmt.Sprintf("%s.%d", prefix, i), facts))
		}
		return tv
	}
	panic(unsupported("symbolic value of " + t.String()))
}

func (x *Exec) sliceInv(sv SliceV) []*Term {
	b := x.b
	mx := b.IntB(pow2(maxLenLog))
	for _, t := range []*Term{sv.Off, sv.Len, sv.Cap} {
		if t.Op == "const" {
			b.SetBounds(t, new(big.Int), pow2(maxLenLog))
		}
	}
	if sv.Obj.Op == "const" {
		b.SetBounds(sv.Obj, new(big.Int), nil)
	}
	raw := func(op string, a, c *Term) *Term {
		r := b.mk(op, SBool, "", nil, a, c)
		return r
	}
	return []*Term{
		raw("<=", b.Int(0), sv.Obj), raw("<=", b.Int(0), sv.Off), raw("<=", sv.Off, mx),
		raw("<=", b.Int(0), sv.Len), raw("<=", sv.Len, sv.Cap), raw("<=", sv.Cap, mx),
		b.Or(b.mk("<", SBool, "", nil, b.Int(0), sv.Obj), b.Eq(sv.Cap, b.Int(0))),
	}
}

// ---------- unsupported constructs

type unsupportedErr struct{ msg string }

func (u unsupportedErr) Error() string { return "unsupported: " + u.msg }
func unsupported(msg string) error     { return unsupportedErr{msg} }

// ---------- loads and stores

// structOf returns the struct type and heap-owner name for a (possibly named) struct type.
func structOf(t types.Type) (*types.Struct, string) {
	s, _ := t.Underlying().(*types.Struct)
	return s, ownerName(t)
}

// subObj returns the object id of the sub-object for an array- or struct-typed field.
func (x *Exec) subObj(st *State, obj *Term, owner string, f *types.Var) *Term {
	key := "sub_" + owner + "." + f.Name()
	if v, ok := obj.Int64(); ok && v < 0 {
		k := subKey{v, key}
		// the id is recorded in the real state: a shadow state (entry/snapshot view used while a
		// clause is evaluated) must not keep it to itself, or the same field would get two ids
		root := st
		for root.sink != nil {
			root = root.sink
		}
		if id, ok := root.subs[k]; ok {
			if root != st {
				st.subs, st.kinds = root.subs, root.kinds
			}
			return x.b.Int(id)
		}
		id := root.newObjID()
		root.subs = cloneSubs(root.subs)
		root.subs[k] = id
		root.kinds = cloneKinds(root.kinds)
		root.kinds[id] = key
		if root != st {
			st.subs, st.kinds = root.subs, root.kinds
		}
		return x.b.Int(id)
	}
	x.subFuncs[key] = true
	return x.b.App(key, SInt, obj)
}

// elemSubObj returns the object id of element i of an array of composite elements.
func (x *Exec) elemSubObj(st *State, obj, idx *Term, elem types.Type) *Term {
	key := "elem_" + typeName(elem)
	if strings.HasPrefix(key, "elem_[") || strings.Contains(key, " ") {
		key = "elem_" + sanitize(elem.String())
	}
	x.elemFuncs[key] = true
	return x.b.App(key, SInt, obj, idx)
}

// loadField reads field #i of the struct object obj.
func (x *Exec) loadField(st *State, obj *Term, T types.Type, i int) Value {
	s, owner := structOf(T)
	f := s.Field(i)
	return x.loadComp(st, obj, f.Type(), func(suffix string) string { return fieldHeapName(owner, f, suffix) }, func() *Term { return x.subObj(st, obj, owner, f) }, "")
}

// loadComp loads a value of type t stored as component heaps named by hn(suffix) at index obj.
// For array- and struct-typed components sub() gives the sub-object id.
func (x *Exec) loadComp(st *State, obj *Term, t types.Type, hn func(string) string, sub func() *Term, _ string) Value {
	b := x.b
	rd := func(suffix, sort string) *Term {
		h := st.heap(x, hn(suffix), SArr(SInt, sort))
		return b.Select(h, obj)
	}
	switch u := t.Underlying().(type) {
	case *types.Basic:
		if u.Info()&types.IsString != 0 {
			l := rd("slen", SInt)
			st.assume(b.mk("<=", SBool, "", nil, b.Int(0), l))
			return StringV{Len: l, Obj: rd("sobj", SInt), Off: rd("soff", SInt)}
		}
		if u.Kind() == types.UnsafePointer {
			return PtrV{Obj: rd("uptr", SInt), Off: b.Int(0), Elem: types.Typ[types.Uint8]}
		}
		if u.Info()&types.IsFloat != 0 || u.Info()&types.IsComplex != 0 {
			return OpaqueV{T: t, ID: rd("opq", SInt)}
		}
		s := x.scalarSort(t)
		v := rd("", s)
		x.assumeRange(st, v, t)
		return v
	case *types.Pointer:
		o := rd("", SInt)
		x.entryObjFact(st, o)
		off := b.Int(0)
		if !isStructT(u.Elem()) {
			off = rd("poff", SInt)
			st.assumeBound(x, off, new(big.Int), nil)
		}
		return PtrV{Obj: o, Off: off, Elem: u.Elem()}
	case *types.Slice:
		sv := SliceV{Obj: rd("obj", SInt), Off: rd("off", SInt), Len: rd("len", SInt), Cap: rd("cap", SInt), Elem: u.Elem()}
		for _, f := range x.sliceInvLoaded(sv) {
			st.assume(f)
		}
		x.entryObjFact(st, sv.Obj)
		return sv
	case *types.Interface:
		ty := rd("ityp", SInt)
		st.assumeBound(x, ty, new(big.Int), nil)
		return IfaceV{Typ: ty, Val: rd("ival", SInt), T: t}
	case *types.Signature:
		return FuncV{ID: rd("fn", SInt)}
	case *types.Map:
		return MapV{ID: rd("map", SInt)}
	case *types.Chan:
		return OpaqueV{T: t, ID: rd("chan", SInt)}
	case *types.Struct:
		so := sub()
		sv := StructV{T: t}
		for i := 0; i < u.NumFields(); i++ {
			sv.Fields = append(sv.Fields, x.loadField(st, so, t, i))
		}
		return sv
	case *types.Array:
		so := sub()
		return x.loadArray(st, so, b.Int(0), u)
	}
	panic(unsupported("load of " + t.String()))
}

func (x *Exec) sliceInvLoaded(sv SliceV) []*Term {
	b := x.b
	mx := b.IntB(pow2(maxLenLog))
	for _, t := range []*Term{sv.Off, sv.Len, sv.Cap} {
		b.SetBounds(t, new(big.Int), pow2(maxLenLog))
	}
	// no sign fact about the object: values loaded from memory may be freshly allocated (negative ids)
	raw := func(op string, a, c *Term) *Term { return b.mk(op, SBool, "", nil, a, c) }
	return []*Term{
		raw("<=", b.Int(0), sv.Off), raw("<=", sv.Off, mx),
		raw("<=", b.Int(0), sv.Len), raw("<=", sv.Len, sv.Cap), raw("<=", sv.Cap, mx),
		b.Or(b.Not(b.mk("=", SBool, "", nil, b.Int(0), sv.Obj)), b.Eq(sv.Cap, b.Int(0))),
	}
}

func (st *State) assumeBound(x *Exec, t *Term, lo, hi *big.Int) {
	if t.IsLit() {
		return
	}
	if lo != nil {
		if _, ok := x.b.symLo[t]; !ok {
			x.b.symLo[t] = lo
			delete(x.b.bcache, t)
		}
		st.assume(x.b.mk("<=", SBool, "", nil, x.b.IntB(lo), t))
	}
	if hi != nil {
		if _, ok := x.b.symHi[t]; !ok {
			x.b.symHi[t] = hi
			delete(x.b.bcache, t)
		}
		st.assume(x.b.mk("<=", SBool, "", nil, t, x.b.IntB(hi)))
	}
}

func (x *Exec) assumeRange(st *State, v *Term, t types.Type) {
	if v.Sort != SInt || v.IsLit() {
		return
	}
	k, ok := basicKind(t)
	if !ok || k.bits == 0 {
		return
	}
	st.assumeBound(x, v, k.lo(), k.hi())
}

// loadArray reads the array value stored in object obj starting at element off.
func (x *Exec) loadArray(st *State, obj, off *Term, u *types.Array) Value {
	b := x.b
	if hn, es, ok := x.elemHeap(u.Elem()); ok {
		h := st.heap(x, hn, SArr(SInt, SArr(SInt, es)))
		arr := b.Select(h, obj)
		if !off.IsLit() || off.Val.Sign() != 0 {
			// shifted view: only supported through a fresh array with a defining quantifier
			na := b.Fresh("arrview", SArr(SInt, es))
			i := b.Var("i!v", SInt)
			st.assumeDef(x, b.Forall([]*Term{i}, b.Implies(b.And(b.Le(b.Int(0), i), b.Lt(i, b.Int(u.Len()))),
				b.Eq(b.mk("select", es, "", nil, na, i), b.mk("select", es, "", nil, arr, b.Add(off, i))))))
			arr = na
		}
		return ArrayV{Arr: arr, N: u.Len(), Elem: u.Elem()}
	}
	av := ArrayV{N: u.Len(), Elem: u.Elem()}
	if u.Len() > 1024 {
		panic(unsupported("load of large composite array"))
	}
	for i := int64(0); i < u.Len(); i++ {
		av.Elems = append(av.Elems, x.loadElem(st, obj, b.Add(off, b.Int(i)), u.Elem()))
	}
	return av
}

// loadElem reads element idx (absolute index) of array object obj.
func (x *Exec) loadElem(st *State, obj, idx *Term, elem types.Type) Value {
	b := x.b
	if hn, es, ok := x.elemHeap(elem); ok {
		h := st.heap(x, hn, SArr(SInt, SArr(SInt, es)))
		v := b.Select(b.Select(h, obj), idx)
		switch u := elem.Underlying().(type) {
		case *types.Pointer:
			x.entryObjFact(st, v)
			return PtrV{Obj: v, Off: b.Int(0), Elem: u.Elem()}
		case *types.Signature:
			return FuncV{ID: v}
		case *types.Map:
			return MapV{ID: v}
		case *types.Chan:
			return OpaqueV{T: elem, ID: v}
		case *types.Basic:
			if u.Info()&types.IsString != 0 {
				return StringV{Len: v}
			}
		}
		x.assumeRange(st, v, elem)
		return v
	}
	switch u := elem.Underlying().(type) {
	case *types.Slice:
		rd := func(s string) *Term {
			h := st.heap(x, "H_sl#"+s, SHeapII)
			return b.Select(b.Select(h, obj), idx)
		}
		sv := SliceV{Obj: rd("obj"), Off: rd("off"), Len: rd("len"), Cap: rd("cap"), Elem: u.Elem()}
		for _, f := range x.sliceInvLoaded(sv) {
			st.assume(f)
		}
		x.entryObjFact(st, sv.Obj)
		return sv
	case *types.Interface:
		rd := func(s string) *Term {
			h := st.heap(x, "H_if#"+s, SHeapII)
			return b.Select(b.Select(h, obj), idx)
		}
		ty := rd("ityp")
		st.assumeBound(x, ty, new(big.Int), nil)
		return IfaceV{Typ: ty, Val: rd("ival"), T: elem}
	case *types.Struct:
		so := x.elemSubObj(st, obj, idx, elem)
		sv := StructV{T: elem}
		for i := 0; i < u.NumFields(); i++ {
			sv.Fields = append(sv.Fields, x.loadField(st, so, elem, i))
		}
		return sv
	case *types.Array:
		so := x.elemSubObj(st, obj, idx, elem)
		return x.loadArray(st, so, b.Int(0), u)
	}
	panic(unsupported("load of element type " + elem.String()))
}

// setHeap installs a new version of a heap; obj is the object written (nil: unknown/whole heap).
func (st *State) setHeap(name string, h *Term, obj *Term) {
	st.heaps[name] = h
	st.dirty[name] = true
	st.record(name, obj)
}

func (x *Exec) storeField(st *State, obj *Term, T types.Type, i int, v Value) {
	s, owner := structOf(T)
	f := s.Field(i)
	x.storeComp(st, obj, f.Type(), func(suffix string) string { return fieldHeapName(owner, f, suffix) }, func() *Term { return x.subObj(st, obj, owner, f) }, v)
}

func (x *Exec) storeComp(st *State, obj *Term, t types.Type, hn func(string) string, sub func() *Term, v Value) {
	b := x.b
	wr := func(suffix string, val *Term) {
		name := hn(suffix)
		h := st.heap(x, name, SArr(SInt, val.Sort))
		st.setHeap(name, b.Store(h, obj, val), obj)
	}
	switch u := t.Underlying().(type) {
	case *types.Basic:
		if u.Info()&types.IsString != 0 {
			sv := v.(StringV)
			wr("slen", sv.Len)
			o, off := sv.Obj, sv.Off
			if o == nil {
				o, off = b.Fresh("strobj", SInt), b.Int(0)
			}
			wr("sobj", o)
			wr("soff", off)
			return
		}
		if u.Kind() == types.UnsafePointer {
			wr("uptr", v.(PtrV).Obj)
			return
		}
		if u.Info()&types.IsFloat != 0 || u.Info()&types.IsComplex != 0 {
			wr("opq", v.(OpaqueV).ID)
			return
		}
		wr("", v.(*Term))
	case *types.Pointer:
		p := x.asPtr(v)
		wr("", p.Obj)
		if !isStructT(u.Elem()) {
			wr("poff", p.Off)
		}
	case *types.Slice:
		sv := v.(SliceV)
		wr("obj", sv.Obj)
		wr("off", sv.Off)
		wr("len", sv.Len)
		wr("cap", sv.Cap)
	case *types.Interface:
		iv := x.asIface(st, v, t)
		wr("ityp", iv.Typ)
		wr("ival", iv.Val)
	case *types.Signature:
		wr("fn", x.funcID(v))
	case *types.Map:
		wr("map", v.(MapV).ID)
	case *types.Chan:
		wr("chan", v.(OpaqueV).ID)
	case *types.Struct:
		so := sub()
		sv := v.(StructV)
		for i := 0; i < u.NumFields(); i++ {
			x.storeField(st, so, t, i, sv.Fields[i])
		}
	case *types.Array:
		so := sub()
		x.storeArray(st, so, b.Int(0), u, v.(ArrayV))
	default:
		panic(unsupported("store of " + t.String()))
	}
}

func (x *Exec) funcID(v Value) *Term {
	f := v.(FuncV)
	if f.ID != nil {
		return f.ID
	}
	if f.Fn != nil {
		return x.b.Const("fn:"+FuncKey(f.Fn), SInt)
	}
	return x.b.Int(0)
}

func (x *Exec) asPtr(v Value) PtrV {
	switch p := v.(type) {
	case PtrV:
		return p
	}
	panic(unsupported(fmt.Sprintf("value %T used as pointer", v)))
}

func (x *Exec) storeArray(st *State, obj, off *Term, u *types.Array, av ArrayV) {
	b := x.b
	if hn, es, ok := x.elemHeap(u.Elem()); ok {
		h := st.heap(x, hn, SArr(SInt, SArr(SInt, es)))
		if off.IsLit() && off.Val.Sign() == 0 && av.Arr != nil {
			// whole-object store. Elements beyond N are irrelevant (never addressed).
			st.setHeap(hn, b.Store(h, obj, av.Arr), obj)
			return
		}
		cur := b.Select(h, obj)
		if u.Len() <= 64 {
			for i := int64(0); i < u.Len(); i++ {
				cur = b.Store(cur, b.Add(off, b.Int(i)), b.Select(av.Arr, b.Int(i)))
			}
			st.setHeap(hn, b.Store(h, obj, cur), obj)
			return
		}
		na := b.Fresh("arrst", SArr(SInt, es))
		i := b.Var("i!s", SInt)
		in := b.And(b.Le(off, i), b.Lt(i, b.Add(off, b.Int(u.Len()))))
		st.assumeDef(x, b.Forall([]*Term{i}, b.Eq(b.mk("select", es, "", nil, na, i),
			b.Ite(in, b.mk("select", es, "", nil, av.Arr, b.Sub(i, off)), b.mk("select", es, "", nil, cur, i)))))
		st.setHeap(hn, b.Store(h, obj, na), obj)
		return
	}
	for i := int64(0); i < u.Len(); i++ {
		x.storeElem(st, obj, b.Add(off, b.Int(i)), u.Elem(), av.Elems[i])
	}
}

func (x *Exec) storeElem(st *State, obj, idx *Term, elem types.Type, v Value) {
	b := x.b
	if hn, es, ok := x.elemHeap(elem); ok {
		h := st.heap(x, hn, SArr(SInt, SArr(SInt, es)))
		var val *Term
		switch vv := v.(type) {
		case *Term:
			val = vv
		case PtrV:
			val = vv.Obj
		case FuncV:
			val = x.funcID(vv)
		case MapV:
			val = vv.ID
		case OpaqueV:
			val = vv.ID
		case StringV:
			val = vv.Len
		default:
			panic(unsupported(fmt.Sprintf("store of %T into element heap", v)))
		}
		st.setHeap(hn, b.Store(h, obj, b.Store(b.Select(h, obj), idx, val)), obj)
		return
	}
	switch u := elem.Underlying().(type) {
	case *types.Slice:
		sv := v.(SliceV)
		wr := func(s string, val *Term) {
			n := "H_sl#" + s
			h := st.heap(x, n, SHeapII)
			st.setHeap(n, b.Store(h, obj, b.Store(b.Select(h, obj), idx, val)), obj)
		}
		wr("obj", sv.Obj)
		wr("off", sv.Off)
		wr("len", sv.Len)
		wr("cap", sv.Cap)
	case *types.Interface:
		iv := x.asIface(st, v, elem)
		wr := func(s string, val *Term) {
			n := "H_if#" + s
			h := st.heap(x, n, SHeapII)
			st.setHeap(n, b.Store(h, obj, b.Store(b.Select(h, obj), idx, val)), obj)
		}
		wr("ityp", iv.Typ)
		wr("ival", iv.Val)
	case *types.Struct:
		so := x.elemSubObj(st, obj, idx, elem)
		sv := v.(StructV)
		for i := 0; i < u.NumFields(); i++ {
			x.storeField(st, so, elem, i, sv.Fields[i])
		}
	case *types.Array:
		so := x.elemSubObj(st, obj, idx, elem)
		x.storeArray(st, so, b.Int(0), u, v.(ArrayV))
	default:
		panic(unsupported("store of element type " + elem.String()))
	}
}

// load reads the value of type p.Elem that p points to.
func (x *Exec) load(st *State, p PtrV) Value {
	if p.FieldOf != nil {
		f := p.FieldOf.Field(p.FieldIdx)
		owner := p.FieldTy
		return x.loadComp(st, p.Obj, f.Type(), func(s string) string { return fieldHeapName(owner, f, s) }, func() *Term { return x.subObj(st, p.Obj, owner, f) }, "")
	}
	switch u := p.Elem.Underlying().(type) {
	case *types.Struct:
		sv := StructV{T: p.Elem}
		for i := 0; i < u.NumFields(); i++ {
			sv.Fields = append(sv.Fields, x.loadField(st, p.Obj, p.Elem, i))
		}
		x.loadGhosts(st, p.Obj, &sv)
		return sv
	case *types.Array:
		return x.loadArray(st, p.Obj, p.Off, u)
	}
	return x.loadElem(st, p.Obj, p.Off, p.Elem)
}

func (x *Exec) store(st *State, p PtrV, v Value) {
	if p.FieldOf != nil {
		f := p.FieldOf.Field(p.FieldIdx)
		owner := p.FieldTy
		x.storeComp(st, p.Obj, f.Type(), func(s string) string { return fieldHeapName(owner, f, s) }, func() *Term { return x.subObj(st, p.Obj, owner, f) }, v)
		return
	}
	switch u := p.Elem.Underlying().(type) {
	case *types.Struct:
		sv := v.(StructV)
		for i := 0; i < u.NumFields(); i++ {
			x.storeField(st, p.Obj, p.Elem, i, sv.Fields[i])
		}
		x.storeGhosts(st, p.Obj, sv)
		return
	case *types.Array:
		x.storeArray(st, p.Obj, p.Off, u, v.(ArrayV))
		return
	}
	x.storeElem(st, p.Obj, p.Off, p.Elem, v)
}

// ---------- interfaces

func (x *Exec) typeID(t types.Type) *Term {
	key := types.TypeString(t, nil)
	id, ok := x.typeIDs[key]
	if !ok {
		id = int64(len(x.typeIDs) + 1)
		x.typeIDs[key] = id
		x.typeByID[id] = t
	}
	return x.b.Int(id)
}

func (x *Exec) asIface(st *State, v Value, t types.Type) IfaceV {
	switch iv := v.(type) {
	case IfaceV:
		return iv
	}
	panic(unsupported(fmt.Sprintf("value %T used as interface", v)))
}

// ifacePayload encodes a concrete value as the single Int payload of an interface, when the
// dynamic type is a pointer (object id) or an integer; other payloads are boxed opaquely.
func (x *Exec) ifacePayload(st *State, v Value) *Term {
	switch vv := v.(type) {
	case PtrV:
		return vv.Obj
	case *Term:
		if vv.Sort == SInt {
			return vv
		}
	}
	return x.b.Fresh("box", SInt)
}

// ghost fields declared "of T" travel with struct values of type T
func (x *Exec) loadGhosts(st *State, obj *Term, sv *StructV) {
	if x.db == nil {
		return
	}
	tn := typeName(sv.T)
	for g, owner := range x.db.GhostOf {
		if owner == tn || strings.HasSuffix(tn, "."+owner) {
			if sv.Ghost == nil {
				sv.Ghost = map[string]*Term{}
			}
			h := st.heap(x, "G_"+g, SArr(SInt, x.db.Ghosts[g]))
			sv.Ghost[g] = x.b.Select(h, obj)
		}
	}
}

func (x *Exec) storeGhosts(st *State, obj *Term, sv StructV) {
	for g, val := range sv.Ghost {
		name := "G_" + g
		h := st.heap(x, name, SArr(SInt, x.db.Ghosts[g]))
		st.setHeap(name, x.b.Store(h, obj, val), obj)
	}
}

// entryObjFact: an object id read directly from the function-entry version of a heap denotes
// memory that existed at entry, so it is not one of the (negative) ids allocated since.
func (x *Exec) entryObjFact(st *State, o *Term) {
	t := o
	// select(select(H@0, obj), idx) or select(F@0, obj)
	for t.Op == "select" {
		t = t.Args[0]
	}
	if t.Op == "const" && strings.HasSuffix(t.Name, "@0") && o.Op == "select" && !o.bound {
		// ... provided the object that holds the reference existed at entry itself: the entry
		// heap says nothing about the fields of an object allocated since (by this function or by
		// a callee whose fresh result it is)
		holder := o
		for holder.Args[0].Op == "select" {
			holder = holder.Args[0]
		}
		root := holder.Args[1]
		for root.Op == "app" && (strings.HasPrefix(root.Name, "sub_") || strings.HasPrefix(root.Name, "elem_")) && len(root.Args) > 0 {
			root = root.Args[0] // an embedded struct or array of an entry object is an entry object
		}
		if lo, _ := x.b.Bounds(root); lo != nil && lo.Sign() >= 0 {
			st.assumeBound(x, o, new(big.Int), nil)
		}
		return
	}
	if o.Op == "select" && !o.bound {
		// a reference found in memory denotes an object that exists now: it is none of the ids
		// handed out by later allocations (path fact only; the term may be read again elsewhere)
		st.assume(x.b.mk("<=", SBool, "", nil, x.b.Int(*st.nextObj), o))
	}
}
