package main

import (
	"encoding/json"
	"fmt"
	"os"
	"path/filepath"
	"sort"
	"strconv"
	"strings"
	"sync"
	"time"
)

type KnownFinding struct {
	Property   string `json:"property"`
	Obligation string `json:"obligation"`
	When       string `json:"when"`
	What       string `json:"what"`
	Status     string `json:"status"`
}

type KnownFindings struct {
	Findings []KnownFinding `json:"findings"`
	Fixed    []string       `json:"fixed"`
}

func loadKnown() *KnownFindings {
	kf := &KnownFindings{}
	data, err := os.ReadFile(filepath.Join(verifDir, "known_findings.json"))
	if err == nil {
		if err := json.Unmarshal(data, kf); err != nil {
			fmt.Fprintln(os.Stderr, "known_findings.json:", err)
			os.Exit(2)
		}
	}
	return kf
}

func (kf *KnownFindings) match(prop, name string) *KnownFinding {
	for i := range kf.Findings {
		f := &kf.Findings[i]
		if f.Property != prop {
			continue
		}
		if f.Obligation == name || (strings.HasSuffix(f.Obligation, "*") && strings.HasPrefix(name, strings.TrimSuffix(f.Obligation, "*"))) {
			return f
		}
	}
	return nil
}

type funcJob struct {
	c    *Contract
	tags string
	cfg  cfgInst
	res  *FuncResult
}

func hasProp(ps []string, id string) bool {
	for _, p := range ps {
		if p == id {
			return true
		}
	}
	return false
}

// cmdCheck: gvc check <Cxx> quick|thorough
func cmdCheck(args []string) int {
	if len(args) < 1 {
		fmt.Fprintln(os.Stderr, "usage: gvc check <Cxx> [quick|thorough]")
		return 2
	}
	prop := args[0]
	tier := "quick"
	if len(args) > 1 {
		tier = args[1]
	}
	if t := os.Getenv("VERIF_TIER"); t == "quick" || t == "thorough" {
		tier = t
	}
	seed := 0
	if s := os.Getenv("VERIF_SEED"); s != "" {
		seed, _ = strconv.Atoi(s)
	}
	start := time.Now()
	db := loadDB()
	kf := loadKnown()
	timeout := 45
	if tier == "thorough" {
		timeout = 180
	}
	engineErr := func(format string, a ...interface{}) int {
		fmt.Printf("ENGINE-ERROR property=%s %s\n", prop, fmt.Sprintf(format, a...))
		return 2
	}

	// select contracts
	var jobs []*funcJob
	pkgsByTags := map[string]map[string]bool{}
	for _, k := range db.Order {
		c := db.Funcs[k]
		if !hasProp(c.Properties, prop) || c.Trusted || c.Pkg == "" {
			continue
		}
		cfgs := c.Cfgs
		if len(cfgs) == 0 {
			cfgs = []string{"default"}
		}
		for _, cfgName := range cfgs {
			tags := "verif"
			if cfgName == "purego" {
				tags = "verif,purego"
				if tier == "quick" && len(cfgs) > 1 {
					continue // the purego build of shared glue is checked in the thorough tier
				}
			}
			if pkgsByTags[tags] == nil {
				pkgsByTags[tags] = map[string]bool{}
			}
			pkgsByTags[tags][c.Pkg] = true
			for _, ci := range expandConfigsTier(c, tier) {
				ci2 := ci
				if cfgName != "default" {
					if ci2.label != "" {
						ci2.label += ","
					}
					ci2.label += cfgName
				}
				jobs = append(jobs, &funcJob{c: c, tags: tags, cfg: ci2})
			}
		}
	}
	if len(jobs) == 0 {
		return engineErr("no contracts are tagged with this property")
	}
	progs := map[string]*Program{}
	for tags, pk := range pkgsByTags {
		var pats []string
		for p := range pk {
			pats = append(pats, p)
		}
		sort.Strings(pats)
		prog, err := LoadProgram(repoDir, tags, pats)
		if err != nil {
			return engineErr("cannot load /repo (%s): %v", tags, err)
		}
		progs[tags] = prog
	}
	specFilesCache = loadSpecChunks(verifDir, db.Prelude)
	// permute job order by seed (a proof does not depend on it)
	if seed != 0 {
		r := uint64(seed)*6364136223846793005 + 1442695040888963407
		for i := len(jobs) - 1; i > 0; i-- {
			r = r*6364136223846793005 + 1442695040888963407
			j := int((r >> 33) % uint64(i+1))
			jobs[i], jobs[j] = jobs[j], jobs[i]
		}
	}
	// symbolic execution in parallel
	var wg sync.WaitGroup
	sem := make(chan struct{}, 12)
	var engErrs []string
	var mu sync.Mutex
	for _, j := range jobs {
		fn := progs[j.tags].Func(j.c.Key)
		if fn == nil {
			engErrs = append(engErrs, fmt.Sprintf("contract %s (%s:%d) no longer matches: function not found with tags %s", j.c.Key, j.c.File, j.c.Line, j.tags))
			continue
		}
		wg.Add(1)
		go func(j *funcJob) {
			defer wg.Done()
			sem <- struct{}{}
			defer func() { <-sem }()
			res := VerifyFunc(progs[j.tags], db, fn, j.c, j.cfg.label, j.cfg.vals)
			j.res = res
			mu.Lock()
			for _, e := range res.Errors {
				engErrs = append(engErrs, res.Label+": "+e)
			}
			mu.Unlock()
		}(j)
	}
	wg.Wait()
	if len(engErrs) > 0 {
		for _, e := range engErrs {
			fmt.Printf("ENGINE-ERROR property=%s %s\n", prop, e)
		}
		return 2
	}
	var all []*Obligation
	for _, j := range jobs {
		to := timeout
		if j.c.Timeout > to {
			to = j.c.Timeout
		}
		for _, o := range j.res.Obls {
			o.timeout = to
		}
		all = append(all, j.res.Obls...)
	}
	// lemmas
	lemObls, lerr := lemmaObligations(db, prop)
	if lerr != nil {
		return engineErr("%v", lerr)
	}
	all = append(all, lemObls...)
	for _, o := range all {
		if kf.match(prop, o.Name) != nil {
			o.capTimeout = 6
		}
	}
	// vacuity guard: the spec prelude (axioms about uninterpreted functions) must not be contradictory
	{
		var sb strings.Builder
		sb.WriteString("(set-logic ALL)\n")
		for _, c := range specFilesCache {
			sb.WriteString(c.text)
			sb.WriteByte('\n')
		}
		sb.WriteString("(check-sat)\n")
		all = append(all, &Obligation{Name: "prelude:consistent", Func: "specs", Kind: "cover", Expect: "notunsat", RawScript: sb.String(),
			Info: "the axioms of the spec library are not refuted (sat or unknown within the timeout)", timeout: 5, Bank: NewBank()})
	}
	work := filepath.Join(outDir, "work", prop)
	os.RemoveAll(work)
	os.RemoveAll(filepath.Join(outDir, "replays", prop)) // replays are rewritten by the run that finds them
	tDis := time.Now()
	if os.Getenv("VERIF_VERBOSE") != "" {
		fmt.Printf("  symbolic execution done after %.1fs, %d obligation instances\n", time.Since(start).Seconds(), len(all))
	}
	defer func() {
		if os.Getenv("VERIF_VERBOSE") != "" {
			fmt.Printf("  discharge took %.1fs\n", time.Since(tDis).Seconds())
		}
	}()
	if err := Discharge(all, work, timeout); err != nil {
		return engineErr("%v", err)
	}
	groups := groupObls(all)
	// verdicts
	type sample struct {
		Obligation string  `json:"obligation"`
		Instances  int     `json:"path_instances"`
		Result     string  `json:"result"`
		Backend    string  `json:"backend"`
		Time       float64 `json:"solver_time_s"`
		Clause     string  `json:"clause,omitempty"`
		Bytes      int     `json:"smt_bytes,omitempty"`
	}
	byBackend := map[string]int{}
	solverTime := 0.0
	discharged, claimed := 0, 0
	var samples []sample
	var violations []*oblGroup
	var known []string
	knownSeen := map[string]bool{}
	exit := 0
	for _, g := range groups {
		for _, o := range g.obls {
			solverTime += o.Result.Time
			if slow := os.Getenv("VERIF_SLOW"); slow != "" && !o.Trivial {
				if thr, _ := strconv.ParseFloat(slow, 64); o.Result.Time >= thr {
					fmt.Fprintf(os.Stderr, "SLOW %.1fs %s\n", o.Result.Time, o.Name)
				}
			}
			if o.Result.Status == "error" {
				fmt.Printf("ENGINE-ERROR property=%s solver error on %s: %s %s\n", prop, o.Name, o.Result.Detail, trunc(o.Result.Output, 300))
				exit = 2
			}
		}
		if g.ok {
			claimed++
			discharged++
			byBackend[g.backend]++
			continue
		}
		if f := kf.match(prop, g.name); f != nil {
			known = append(known, g.name)
			if !knownSeen[f.Obligation] {
				knownSeen[f.Obligation] = true
				fmt.Printf("KNOWN-FINDING: property=%s %s: %s (when %s)\n", prop, g.name, f.What, f.When)
			}
			continue
		}
		claimed++
		violations = append(violations, g)
	}
	if exit == 2 {
		return 2
	}
	// a listed finding that no longer fails is reported (not an error)
	for _, f := range kf.Findings {
		if f.Property == prop && !knownSeen[f.Obligation] {
			fmt.Printf("NOTE: known finding %s did not fail on this run (fixed or renamed?)\n", f.Obligation)
		}
	}
	sort.Slice(groups, func(i, j int) bool { return groups[i].name < groups[j].name })
	step := len(groups)/12 + 1
	for i := 0; i < len(groups); i += step {
		g := groups[i]
		sz := 0
		if g.obls[0].File != "" {
			if fi, err := os.Stat(g.obls[0].File); err == nil {
				sz = int(fi.Size())
			}
		}
		samples = append(samples, sample{g.name, len(g.obls), g.statusDetail(), g.backend, g.time, g.obls[0].Info, sz})
	}
	// violations: replay
	nviol := 0
	for _, g := range violations {
		nviol++
		dir := writeReplay(prop, g, progs)
		line := fmt.Sprintf("VIOLATION property=%s replay=%s obligation=%s", prop, dir.path, g.name)
		if !dir.confirmed {
			line += " " + dir.note + " no-failing-input-found"
		}
		fmt.Println(line)
		exit = 1
	}
	// evidence
	type fuc struct {
		Function    string   `json:"function"`
		Cfg         string   `json:"cfg,omitempty"`
		Mode        string   `json:"mode"`
		Obligations int      `json:"obligations"`
		Instances   int      `json:"path_instances"`
		Paths       int      `json:"paths"`
		Inlined     []string `json:"inlined,omitempty"`
	}
	var fucs []fuc
	trustedSet, havocSet, noteSet := map[string]bool{}, map[string]bool{}, map[string]bool{}
	for _, j := range jobs {
		gs := groupObls(j.res.Obls)
		fucs = append(fucs, fuc{j.res.Label, j.cfg.label, j.res.Mode, len(gs), len(j.res.Obls), j.res.Paths, j.res.Inlined})
		for _, t := range j.res.Trusted {
			trustedSet[t] = true
		}
		for _, t := range j.res.Havocked {
			havocSet[t] = true
		}
		for _, t := range j.res.Notes {
			noteSet[t] = true
		}
	}
	sort.Slice(fucs, func(i, j int) bool { return fucs[i].Function+fucs[i].Cfg < fucs[j].Function+fucs[j].Cfg })
	var trustedBase []string
	for _, t := range keys(trustedSet) {
		trustedBase = append(trustedBase, "assumed contract (trusted, body not verified): "+t)
	}
	for _, k := range db.Order {
		c := db.Funcs[k]
		if c.Trusted && c.Pkg != "" && hasProp(c.Properties, prop) && !trustedSet[shortPkg(k)] {
			trustedBase = append(trustedBase, "assumed contract (trusted, body not verified): "+shortPkg(k))
		}
	}
	for _, t := range keys(havocSet) {
		trustedBase = append(trustedBase, "call without contract, modelled as havoc of results and memory (assumed not to panic): "+t)
	}
	trustedBase = append(trustedBase, "spec functions in /verif/specs (transcriptions of the standards)",
		"go/ssa (x/tools v0.29.0) translation of the source; z3 4.8.12 / z3 5.1.0 / cvc5 1.0.3")
	assumptions := []string{
		"Go int/sized signed arithmetic is mathematical with an overflow obligation per operation (unsigned types wrap exactly)",
		"Go memory safety outside unsafe/asm: component memory model (distinct fields and element kinds never alias)",
		"no slice has more than 2^40 elements; allocations beyond that do not return",
		"pointer parameters and receivers are non-nil unless the contract says nullable (checked at verified call sites)",
	}
	for _, n := range keys(noteSet) {
		assumptions = append(assumptions, n)
	}
	bounded := runBounded(prop, tier, seed)
	for _, bc := range bounded {
		if bc.Failed > 0 {
			nviol++
			exit = 1
			fmt.Printf("VIOLATION property=%s replay=%s bounded-check=%s\n", prop, bc.Replay, bc.Name)
		}
	}
	ev := map[string]interface{}{
		"property_id": prop,
		"tier":        tier,
		"seed":        seed,
		"level":       "proof",
		"coverage": map[string]interface{}{
			"obligations":               claimed,
			"discharged":                discharged,
			"checker_cmd":               fmt.Sprintf("./check %s %s", prop, tier),
			"trusted_base":              trustedBase,
			"samples":                   samples,
			"functions_under_contract":  fucs,
			"by_backend":                byBackend,
			"solver_time_s":             solverTime,
			"path_instances":            len(all),
			"lemmas":                    len(lemObls),
			"known_finding_obligations": known,
			"bounded_checks":            bounded,
			"explanation":               "each obligation is one SMT query generated from the go/ssa form of the function in /repo's working tree; 'discharged' counts named obligations all of whose path instances were unsat (cover obligations: sat)",
		},
		"assumptions": assumptions,
		"wall_s":      time.Since(start).Seconds(),
		"violations":  nviol,
	}
	os.MkdirAll(filepath.Join(outDir, "evidence"), 0o755)
	data, _ := json.MarshalIndent(ev, "", " ")
	if err := os.WriteFile(filepath.Join(outDir, "evidence", prop+".json"), data, 0o644); err != nil {
		return engineErr("cannot write evidence: %v", err)
	}
	fmt.Printf("property=%s tier=%s functions=%d obligations=%d discharged=%d known-findings=%d violations=%d solver=%.1fs wall=%.1fs\n",
		prop, tier, len(jobs), claimed, discharged, len(known), nviol, solverTime, time.Since(start).Seconds())
	if os.Getenv("VERIF_VERBOSE") != "" {
		sort.Slice(groups, func(i, j int) bool { return groups[i].time > groups[j].time })
		for i := 0; i < len(groups) && i < 8; i++ {
			fmt.Printf("  slow: %-80s %.2fs %s n=%d\n", groups[i].name, groups[i].time, groups[i].backend, len(groups[i].obls))
		}
	}
	if claimed == 0 {
		return engineErr("no obligations generated")
	}
	return exit
}

// expandConfigsTier enumerates the configuration parameters of a contract for a tier.
func expandConfigsTier(c *Contract, tier string) []cfgInst {
	all := expandConfigs(c)
	if tier == "thorough" || len(c.QuickCfg) == 0 {
		return all
	}
	var out []cfgInst
	for _, ci := range all {
		keep := true
		for name, vals := range c.QuickCfg {
			v, ok := ci.vals[name]
			if !ok {
				continue
			}
			found := false
			for _, q := range vals {
				if q == v {
					found = true
				}
			}
			if !found {
				keep = false
			}
		}
		if keep {
			out = append(out, ci)
		}
	}
	return out
}

type replayDir struct {
	path      string
	confirmed bool
	note      string
}
