package main

func cmdCheck(args []string) int    { return 2 }
func cmdReplay(args []string) int   { return 2 }
func cmdSelftest(args []string) int { return 2 }
