package main

// Bit-vector ("bits mode") semantics for sized integers.

import (
	"go/token"
	"math/big"

	"golang.org/x/tools/go/ssa"
)

func (x *Exec) binopBV(st *State, v *ssa.BinOp, xt, yt *Term) Value {
	b := x.b
	k, _ := basicKind(v.X.Type())
	w := k.bits
	// shift counts may have another width or be Int
	if v.Op == token.SHL || v.Op == token.SHR {
		var cnt *Term
		switch {
		case yt.Sort == SInt:
			if yt.Op != "int" {
				panic(unsupported("symbolic int shift count in bits mode"))
			}
			if yt.Val.Sign() < 0 {
				x.check(st, "shift", "negative", v, b.False(), "shift count is not negative")
				return xt
			}
			if yt.Val.Cmp(big.NewInt(int64(w))) >= 0 {
				if v.Op == token.SHR && k.signed {
					return b.bvop("bvashr", xt, b.BV(big.NewInt(int64(w-1)), w))
				}
				return b.BV(new(big.Int), w)
			}
			cnt = b.BV(yt.Val, w)
		default:
			yw := bvWidth(yt.Sort)
			if yw == w {
				cnt = yt
			} else if yw < w {
				cnt = b.ZeroExt(yt, w)
			} else {
				// saturate: counts >= w give 0 anyway
				big := b.BvCmp("bvuge", yt, b.BV(big.NewInt(int64(w)), yw))
				cnt = b.Ite(big, b.BV(big1Shift(w), w), b.Extract(w-1, 0, yt))
			}
		}
		// SMT shifts already give 0 for counts >= width (logical) / sign fill (arithmetic)
		switch {
		case v.Op == token.SHL:
			return b.bvop("bvshl", xt, cnt)
		case k.signed:
			return b.bvop("bvashr", xt, cnt)
		default:
			return b.bvop("bvlshr", xt, cnt)
		}
	}
	if xt.Sort != yt.Sort {
		panic(unsupported("bit-vector operands of different sorts"))
	}
	switch v.Op {
	case token.ADD:
		return b.bvop("bvadd", xt, yt)
	case token.SUB:
		return b.bvop("bvsub", xt, yt)
	case token.MUL:
		return b.bvop("bvmul", xt, yt)
	case token.AND:
		return b.bvop("bvand", xt, yt)
	case token.OR:
		return b.bvop("bvor", xt, yt)
	case token.XOR:
		return b.bvop("bvxor", xt, yt)
	case token.AND_NOT:
		return b.bvop("bvand", xt, b.BvNot(yt))
	case token.QUO, token.REM:
		fr := st.frameTop()
		x.check(st, "div0", x.detailOr(fr.fn, v.Pos(), "binop", v.Op.String()), v, b.Ne(yt, b.BV(new(big.Int), w)), "divisor is not zero")
		op := "bvudiv"
		if v.Op == token.REM {
			op = "bvurem"
		}
		if k.signed {
			op = "bvsdiv"
			if v.Op == token.REM {
				op = "bvsrem"
			}
		}
		return b.bvop(op, xt, yt)
	case token.LSS, token.LEQ, token.GTR, token.GEQ:
		op := map[token.Token]string{token.LSS: "lt", token.LEQ: "le", token.GTR: "gt", token.GEQ: "ge"}[v.Op]
		if k.signed {
			return b.BvCmp("bvs"+op, xt, yt)
		}
		return b.BvCmp("bvu"+op, xt, yt)
	}
	panic(unsupported("bit-vector binary " + v.Op.String()))
}

func big1Shift(w int) *big.Int { return big.NewInt(int64(w)) }

// convertBV converts between integer kinds when at least one side is a bit-vector.
func (x *Exec) convertBV(st *State, t *Term, fk, tk scalarKind) Value {
	b := x.b
	toBV := !(tk.name == "int") && x.mode == ModeBits
	if isBV(t.Sort) {
		if toBV {
			w := bvWidth(t.Sort)
			switch {
			case tk.bits == w:
				return t
			case tk.bits < w:
				return b.Extract(tk.bits-1, 0, t)
			case fk.signed:
				return b.SignExt(t, tk.bits)
			default:
				return b.ZeroExt(t, tk.bits)
			}
		}
		// bit-vector to int
		if t.Op == "bv" {
			v := new(big.Int).Set(t.Val)
			w := bvWidth(t.Sort)
			if fk.signed && v.Bit(w-1) == 1 {
				v.Sub(v, pow2(uint(w)))
			}
			return b.IntB(v)
		}
		if bvWidth(t.Sort) <= 16 && !fk.signed {
			return b.BV2Int(t)
		}
		panic(unsupported("wide bit-vector to int conversion of a symbolic value"))
	}
	// int to bit-vector
	if t.Op == "int" {
		return b.BV(t.Val, tk.bits)
	}
	if tk.bits <= 16 {
		return b.Int2BV(t, tk.bits)
	}
	panic(unsupported("symbolic int to wide bit-vector conversion"))
}

func (x *Exec) evalBinaryBV(ctx *SpecCtx, e *Expr, l, r *Term) Value {
	b := x.b
	if l.Sort == SInt && l.Op == "int" && isBV(r.Sort) {
		l = b.BV(l.Val, bvWidth(r.Sort))
	}
	if r.Sort == SInt && r.Op == "int" && isBV(l.Sort) {
		if e.Name == "<<" || e.Name == ">>" {
			w := bvWidth(l.Sort)
			if r.Val.Cmp(big.NewInt(int64(w))) >= 0 {
				return b.BV(new(big.Int), w)
			}
		}
		r = b.BV(r.Val, bvWidth(l.Sort))
	}
	if l.Sort != r.Sort {
		specFail("bit-vector operands of different sorts in %s", e.String())
	}
	switch e.Name {
	case "+":
		return b.bvop("bvadd", l, r)
	case "-":
		return b.bvop("bvsub", l, r)
	case "*":
		return b.bvop("bvmul", l, r)
	case "&":
		return b.bvop("bvand", l, r)
	case "|":
		return b.bvop("bvor", l, r)
	case "^":
		return b.bvop("bvxor", l, r)
	case "&^":
		return b.bvop("bvand", l, b.BvNot(r))
	case "<<":
		return b.bvop("bvshl", l, r)
	case ">>":
		return b.bvop("bvlshr", l, r)
	case "<":
		return b.BvCmp("bvult", l, r)
	case "<=":
		return b.BvCmp("bvule", l, r)
	case ">":
		return b.BvCmp("bvugt", l, r)
	case ">=":
		return b.BvCmp("bvuge", l, r)
	}
	specFail("operator %s on bit-vectors in %s", e.Name, e.String())
	return nil
}
