package main

// Evaluation of contract expressions over symbolic states.

import (
	"os"
	"runtime/debug"
	"fmt"
	"go/constant"
	"go/types"
	"math/big"
	"regexp"
	"strings"

	"golang.org/x/tools/go/ssa"
)

type SpecCtx struct {
	x        *Exec
	st       *State // current state (heap reads, fact sink)
	fr       *Frame // frame for local-variable lookup (nil when applying a callee contract)
	names    map[string]Value
	old      *Snapshot
	pkg      *types.Package
	inOld    bool
	depth    int
	noExpand bool // keep literal-bounded quantifiers as quantifiers
}

type specErr struct{ msg string }

func (e specErr) Error() string { return e.msg }

func specFail(format string, a ...interface{}) {
	panic(specErr{fmt.Sprintf(format, a...)})
}

// specCtx builds the context for clauses evaluated inside the function of frame fr.
func (x *Exec) specCtx(st *State, fr *Frame) *SpecCtx {
	ctx := &SpecCtx{x: x, st: st, fr: fr, names: map[string]Value{}, old: fr.pre}
	if fr.fn.Pkg != nil {
		ctx.pkg = fr.fn.Pkg.Pkg
	}
	for k, v := range fr.params {
		ctx.names[k] = v
	}
	for k, v := range fr.lets {
		ctx.names[k] = v
	}
	if fr.contract != nil {
		// names of "bind" clauses whose anchor this path has not passed: unconstrained values
		for _, a := range fr.contract.Asserts {
			if a.Bind != "" {
				if _, ok := ctx.names[a.Bind]; !ok {
					srt := SInt
					if a.E.Kind == "call" && (a.E.Name == "arr" || a.E.Name == "upd") {
						srt = SArr(SInt, SInt)
					}
					ctx.names[a.Bind] = x.b.Fresh("unbound."+a.Bind, srt)
				}
			}
		}
	}
	return ctx
}

func (x *Exec) specCtxOld(st *State, fr *Frame) *SpecCtx { return x.specCtx(st, fr) }

// shadow returns a state view over the snapshot heaps whose assumptions go to the real state.
func (ctx *SpecCtx) oldState() *State {
	sn := ctx.old
	if sn == nil {
		return ctx.st
	}
	sh := &State{heaps: map[string]*Term{}, dirty: map[string]bool{}, pcset: map[*Term]bool{}, nextObj: ctx.st.nextObj,
		subs: ctx.st.subs, kinds: ctx.st.kinds, epoch: sn.epoch, sink: ctx.st, frames: ctx.st.frames}
	for k, v := range sn.heaps {
		sh.heaps[k] = v
	}
	return sh
}

func (x *Exec) evalLets(ctx *SpecCtx, ct *Contract) {
	for _, l := range ct.Lets {
		ctx.names[l.Name] = x.eval(ctx, l.E)
	}
}

func (x *Exec) evalBool(ctx *SpecCtx, e *Expr) *Term {
	v := x.eval(ctx, e)
	t, ok := v.(*Term)
	if !ok || t.Sort != SBool {
		specFail("boolean expected: %s", e.String())
	}
	return t
}

func (x *Exec) evalInt(ctx *SpecCtx, e *Expr) *Term {
	v := x.eval(ctx, e)
	t, ok := v.(*Term)
	if !ok {
		specFail("integer expected: %s (got %T)", e.String(), v)
	}
	if isBV(t.Sort) {
		return t
	}
	if t.Sort != SInt {
		specFail("integer expected: %s", e.String())
	}
	return t
}

var reBitFn = regexp.MustCompile(`^b(xor|or|and|shl|shr|andnot)(8|16|32|64)$`)

func (x *Exec) eval(ctx *SpecCtx, e *Expr) Value {
	b := x.b
	switch e.Kind {
	case "int":
		bi, ok := new(big.Int).SetString(e.Val, 0)
		if !ok {
			specFail("bad integer %q", e.Val)
		}
		return b.IntB(bi)
	case "bool":
		return b.Bool(e.Val == "true")
	case "nil":
		return nilV{}
	case "ident":
		return x.evalIdent(ctx, e.Name)
	case "old":
		if ctx.old == nil {
			specFail("old() not available here")
		}
		c2 := *ctx
		c2.st = ctx.oldState()
		c2.inOld = true
		return x.eval(&c2, e.Args[0])
	case "unary":
		switch e.Name {
		case "!":
			return b.Not(x.evalBool(ctx, e.Args[0]))
		case "-":
			return b.Neg(x.evalInt(ctx, e.Args[0]))
		case "*":
			p, ok := x.eval(ctx, e.Args[0]).(PtrV)
			if !ok {
				specFail("dereference of non-pointer %s", e.Args[0])
			}
			return x.load(ctx.st, p)
		}
	case "binary":
		return x.evalBinary(ctx, e)
	case "field":
		if v, ok := x.evalPkgMember(ctx, e); ok {
			return v
		}
		return x.evalField(ctx, x.eval(ctx, e.Args[0]), e.Name, e)
	case "index":
		base := x.eval(ctx, e.Args[0])
		idx := x.evalInt(ctx, e.Args[1])
		return x.evalIndex(ctx, base, idx, e)
	case "slice":
		base := x.eval(ctx, e.Args[0])
		return x.evalSlice(ctx, base, e)
	case "call":
		return x.evalCall(ctx, e)
	case "forall", "exists":
		c2 := *ctx
		c2.names = map[string]Value{}
		for k, v := range ctx.names {
			c2.names[k] = v
		}
		var vars []*Term
		for _, n := range e.Vars {
			ctx.depth++
			v := b.Var(fmt.Sprintf("%s!q%d", n, x.qcount()), SInt)
			vars = append(vars, v)
			c2.names[n] = v
		}
		body := x.evalBool(&c2, e.Args[0])
		if len(vars) == 1 && !ctx.noExpand {
			if r, ok := x.expandBounded(e.Kind, body, vars[0]); ok {
				return r
			}
		}
		for i, v := range vars {
			body, vars[i] = x.absIndex(body, v)
		}
		if e.Kind == "forall" {
			return b.Forall(vars, body)
		}
		return b.Exists(vars, body)
	}
	specFail("cannot evaluate %s", e.String())
	return nil
}

func (x *Exec) qcount() int { x.qn++; return x.qn }

type nilV struct{}

func (x *Exec) evalIdent(ctx *SpecCtx, name string) Value {
	if ctx.fr != nil && !ctx.inOld {
		// inside the function a parameter name means the variable's current value
		if _, isParam := ctx.fr.params[name]; isParam {
			if v, ok := x.lookupLocal(ctx.st, ctx.fr, name); ok {
				return v
			}
		}
	}
	if v, ok := ctx.names[name]; ok {
		return v
	}
	if v, ok := x.cfgVals[name]; ok {
		return x.b.Int(v)
	}
	if name == "cfg_purego" {
		return x.b.Bool(x.prog != nil && strings.Contains(x.prog.Tags, "purego"))
	}
	if ctx.fr != nil {
		if v, ok := x.lookupLocal(ctx.st, ctx.fr, name); ok {
			return v
		}
	}
	if ctx.pkg != nil {
		if obj := ctx.pkg.Scope().Lookup(name); obj != nil {
			switch o := obj.(type) {
			case *types.Const:
				if o.Val().Kind() == constant.Int {
					bi, _ := new(big.Int).SetString(o.Val().ExactString(), 10)
					return x.b.IntB(bi)
				}
				if o.Val().Kind() == constant.Bool {
					return x.b.Bool(constant.BoolVal(o.Val()))
				}
			case *types.Var:
				if sp := x.prog.Pkgs[ctx.pkg.Path()]; sp != nil {
					if g, ok := sp.Members[name].(*ssa.Global); ok {
						return x.load(ctx.st, x.globalPtr(g))
					}
				}
			}
		}
	}
	if os.Getenv("GVC_DEBUG") != "" {
		debug.PrintStack()
	}
	specFail("unknown identifier %q", name)
	return nil
}

// lookupLocal resolves a source-level variable name to its current SSA value in frame fr.
// phiName is the source name of a loop variable: the phi's comment, or for "for i := range n"
// (whose hidden counter is named rangeint.iter) the variable the counter is copied to.
func phiName(v *ssa.Phi) string {
	if v.Comment != "rangeint.iter" {
		return v.Comment
	}
	if refs := v.Referrers(); refs != nil {
		for _, r := range *refs {
			if d, ok := r.(*ssa.DebugRef); ok && !d.IsAddr && d.Object() != nil {
				return d.Object().Name()
			}
		}
	}
	return v.Comment
}

func (x *Exec) lookupLocal(st *State, fr *Frame, name string) (Value, bool) {
	// 0. composite (struct/array) locals that live in memory are denoted by their address
	for _, blk := range fr.fn.Blocks {
		for _, in := range blk.Instrs {
			if v, ok := in.(*ssa.DebugRef); ok && v.IsAddr && v.Object() != nil && v.Object().Name() == name {
				if pv, ok := fr.env[v.X]; ok {
					if p, ok := pv.(PtrV); ok && (isStructT(p.Elem) || isArrayT(p.Elem)) {
						return p, true
					}
				}
			}
		}
	}
	// 1. phi of the current block (loop variable) or any executed phi with that comment,
	//    preferring the one in the current block, then dominating blocks nearest first
	var best ssa.Value
	bestRank := -1
	consider := func(v ssa.Value, blk *ssa.BasicBlock, ip int) {
		if _, ok := fr.env[v]; !ok {
			return
		}
		if fr.block != nil && blk != fr.block && !blk.Dominates(fr.block) {
			return
		}
		rank := blk.Index*100000 + ip
		if blk == fr.block {
			rank = 1 << 40
			if ip >= 0 {
				rank += ip
			}
		} else {
			// nearer dominators have larger dominator-tree depth
			d := 0
			for p := blk; p != nil; p = p.Idom() {
				d++
			}
			rank = d*1000000 + ip
		}
		if rank > bestRank {
			bestRank, best = rank, v
		}
	}
	for _, blk := range fr.fn.Blocks {
		for i, in := range blk.Instrs {
			switch v := in.(type) {
			case *ssa.Phi:
				if phiName(v) == name {
					consider(v, blk, i)
				}
			case *ssa.DebugRef:
				if v.IsAddr {
					continue
				}
				if id, ok := v.Expr.(interface{ String() string }); ok && v.Object() != nil && v.Object().Name() == name {
					_ = id
					if blk == fr.block && i >= fr.ip {
						continue // not executed yet on this path
					}
					consider(v.X, blk, i)
				}
			}
		}
	}
	if best != nil {
		return fr.env[best], true
	}
	// address-taken locals: DebugRef with IsAddr → load through the cell
	for _, blk := range fr.fn.Blocks {
		for _, in := range blk.Instrs {
			if v, ok := in.(*ssa.DebugRef); ok && v.IsAddr && v.Object() != nil && v.Object().Name() == name {
				if pv, ok := fr.env[v.X]; ok {
					p := pv.(PtrV)
					if isStructT(p.Elem) || isArrayT(p.Elem) {
						return p, true // composite locals are denoted by their address (object)
					}
					return x.load(st, p), true
				}
			}
		}
	}
	return nil, false
}

func (x *Exec) evalBinary(ctx *SpecCtx, e *Expr) Value {
	b := x.b
	switch e.Name {
	case "&&":
		l := x.evalBool(ctx, e.Args[0])
		if l.IsFalse() {
			return l // short circuit: the right side may mention names that do not exist here (defined())
		}
		return b.And(l, x.evalBool(ctx, e.Args[1]))
	case "||":
		l := x.evalBool(ctx, e.Args[0])
		if l.IsTrue() {
			return l
		}
		return b.Or(l, x.evalBool(ctx, e.Args[1]))
	case "==>":
		l := x.evalBool(ctx, e.Args[0])
		if l.IsFalse() {
			return b.True()
		}
		return b.Implies(l, x.evalBool(ctx, e.Args[1]))
	case "<==>":
		return b.Eq(x.evalBool(ctx, e.Args[0]), x.evalBool(ctx, e.Args[1]))
	case "==", "!=":
		l, r := x.eval(ctx, e.Args[0]), x.eval(ctx, e.Args[1])
		eq := x.specEqual(ctx, l, r, e)
		if e.Name == "!=" {
			return b.Not(eq)
		}
		return eq
	}
	l, r := x.evalInt(ctx, e.Args[0]), x.evalInt(ctx, e.Args[1])
	if isBV(l.Sort) || isBV(r.Sort) {
		return x.evalBinaryBV(ctx, e, l, r)
	}
	switch e.Name {
	case "<":
		return b.Lt(l, r)
	case "<=":
		return b.Le(l, r)
	case ">":
		return b.Gt(l, r)
	case ">=":
		return b.Ge(l, r)
	case "+":
		return b.Add(l, r)
	case "-":
		return b.Sub(l, r)
	case "*":
		return b.Mul(l, r)
	case "/":
		return b.Div(l, r)
	case "%":
		return b.Mod(l, r)
	case "<<":
		if r.Op == "int" {
			return b.Mul(l, b.IntB(pow2(uint(r.Val.Int64()))))
		}
	case ">>":
		if r.Op == "int" {
			return b.Div(l, b.IntB(pow2(uint(r.Val.Int64()))))
		}
	case "&":
		if r.Op == "int" {
			if n, ok := isPow2(new(big.Int).Add(r.Val, big1)); ok {
				return b.Mod(l, b.IntB(pow2(n)))
			}
		}
	case "&^":
		if r.Op == "int" {
			if n, ok := isPow2(new(big.Int).Add(r.Val, big1)); ok {
				return b.Sub(l, b.Mod(l, b.IntB(pow2(n))))
			}
		}
	}
	specFail("operator %s not supported on these operands in %s", e.Name, e.String())
	return nil
}

func (x *Exec) specEqual(ctx *SpecCtx, l, r Value, e *Expr) *Term {
	b := x.b
	if _, ok := l.(nilV); ok {
		l, r = r, l
	}
	if _, ok := r.(nilV); ok {
		switch v := l.(type) {
		case PtrV:
			return b.Eq(v.Obj, b.Int(0))
		case SliceV:
			return b.Eq(v.Obj, b.Int(0))
		case IfaceV:
			return b.Eq(v.Typ, b.Int(0))
		case FuncV:
			return b.Eq(x.funcID(v), b.Int(0))
		case MapV:
			return b.Eq(v.ID, b.Int(0))
		case nilV:
			return b.True()
		}
		specFail("comparison with nil of %T in %s", l, e.String())
	}
	switch lv := l.(type) {
	case *Term:
		rv, ok := r.(*Term)
		if !ok {
			specFail("type mismatch in %s", e.String())
		}
		if lv.Sort != rv.Sort {
			specFail("sort mismatch in %s: %s vs %s", e.String(), lv.Sort, rv.Sort)
		}
		return b.Eq(lv, rv)
	case SliceV:
		rv, ok := r.(SliceV)
		if !ok {
			specFail("type mismatch in %s", e.String())
		}
		return b.And(b.Eq(lv.Obj, rv.Obj), b.Eq(lv.Off, rv.Off), b.Eq(lv.Len, rv.Len), b.Eq(lv.Cap, rv.Cap))
	case ArrayV:
		rv, ok := r.(ArrayV)
		if ok && lv.Arr != nil && rv.Arr != nil {
			return x.equal(ctx.st, lv, rv, nil)
		}
	}
	return x.equal(ctx.st, l, r, nil)
}

func (x *Exec) evalField(ctx *SpecCtx, base Value, name string, e *Expr) Value {
	switch v := base.(type) {
	case PtrV:
		s, _ := structOf(v.Elem)
		if s == nil {
			specFail("field %s of non-struct pointer in %s", name, e.String())
		}
		idx, path := findField(s, name)
		if idx < 0 {
			specFail("no field %s in %s", name, v.Elem.String())
		}
		p := v
		for _, i := range path {
			// embedded struct steps
			p = x.fieldAddr(ctx.st, p, i)
		}
		fp := x.fieldAddr(ctx.st, p, idx)
		switch fp.Elem.Underlying().(type) {
		case *types.Struct, *types.Array:
			return fp // composite fields evaluate to their address (sub-object)
		}
		return x.load(ctx.st, fp)
	case StructV:
		s, _ := structOf(v.T)
		idx, path := findField(s, name)
		if idx < 0 {
			specFail("no field %s in %s", name, v.T.String())
		}
		cur := v
		for _, i := range path {
			cur = cur.Fields[i].(StructV)
		}
		return cur.Fields[idx]
	case SliceV:
		switch name {
		case "obj":
			return v.Obj
		case "off":
			return v.Off
		}
	}
	specFail("field access .%s on %T in %s", name, base, e.String())
	return nil
}

// findField finds a (possibly promoted) field; path lists embedded-struct field indices to follow.
func findField(s *types.Struct, name string) (int, []int) {
	for i := 0; i < s.NumFields(); i++ {
		if s.Field(i).Name() == name {
			return i, nil
		}
	}
	for i := 0; i < s.NumFields(); i++ {
		f := s.Field(i)
		if f.Embedded() {
			if es, ok := f.Type().Underlying().(*types.Struct); ok {
				if idx, p := findField(es, name); idx >= 0 {
					return idx, append([]int{i}, p...)
				}
			}
		}
	}
	return -1, nil
}

func (x *Exec) evalIndex(ctx *SpecCtx, base Value, idx *Term, e *Expr) Value {
	b := x.b
	switch v := base.(type) {
	case SliceV:
		return x.specLoadElem(ctx, v.Obj, b.Add(v.Off, idx), v.Elem)
	case PtrV:
		if at, ok := v.Elem.Underlying().(*types.Array); ok {
			if _, _, ok := x.elemHeap(at.Elem()); !ok {
				switch at.Elem().Underlying().(type) {
				case *types.Struct, *types.Array:
					return PtrV{Obj: x.elemSubObj(ctx.st, v.Obj, b.Add(v.Off, idx), at.Elem()), Off: b.Int(0), Elem: at.Elem()}
				}
			}
			return x.specLoadElem(ctx, v.Obj, b.Add(v.Off, idx), at.Elem())
		}
	case ArrayV:
		if v.Arr != nil {
			return b.Select(v.Arr, idx)
		}
		if k, ok := idx.Int64(); ok && k >= 0 && k < int64(len(v.Elems)) {
			return v.Elems[k]
		}
	case *Term:
		if strings.HasPrefix(v.Sort, "(Array ") {
			r := b.Select(v, idx)
			if v.Op == "app" && r.Op == "select" {
				if sf := x.db.SpecFns[v.Name]; sf != nil && sf.Bytes {
					b.SetBounds(r, new(big.Int), big.NewInt(255))
				} else if sf != nil && sf.U32 {
					b.SetBounds(r, new(big.Int), big.NewInt(4294967295))
				}
			}
			return r
		}
	}
	specFail("cannot index %T in %s", base, e.String())
	return nil
}

func (x *Exec) specLoadElem(ctx *SpecCtx, obj, idx *Term, elem types.Type) Value {
	if idx.bound || obj.bound {
		// no range facts for terms with bound variables
		saved := ctx.st.mute
		ctx.st.mute = true
		defer func() { ctx.st.mute = saved }()
	}
	return x.loadElem(ctx.st, obj, idx, elem)
}

func (x *Exec) evalSlice(ctx *SpecCtx, base Value, e *Expr) Value {
	b := x.b
	var lo, hi *Term
	if e.Args[1] != nil {
		lo = x.evalInt(ctx, e.Args[1])
	}
	if e.Args[2] != nil {
		hi = x.evalInt(ctx, e.Args[2])
	}
	switch v := base.(type) {
	case SliceV:
		if lo == nil {
			lo = b.Int(0)
		}
		if hi == nil {
			hi = v.Len
		}
		return SliceV{Obj: v.Obj, Off: b.Add(v.Off, lo), Len: b.Sub(hi, lo), Cap: b.Sub(v.Cap, lo), Elem: v.Elem}
	case PtrV:
		if at, ok := v.Elem.Underlying().(*types.Array); ok {
			if lo == nil {
				lo = b.Int(0)
			}
			if hi == nil {
				hi = b.Int(at.Len())
			}
			return SliceV{Obj: v.Obj, Off: b.Add(v.Off, lo), Len: b.Sub(hi, lo), Cap: b.Sub(b.Int(at.Len()), lo), Elem: at.Elem()}
		}
	}
	specFail("cannot slice %T in %s", base, e.String())
	return nil
}

func (x *Exec) evalCall(ctx *SpecCtx, e *Expr) Value {
	b := x.b
	arg := func(i int) Value { return x.eval(ctx, e.Args[i]) }
	need := func(n int) {
		if len(e.Args) != n {
			specFail("%s expects %d arguments in %s", e.Name, n, e.String())
		}
	}
	switch e.Name {
	case "len":
		need(1)
		switch v := arg(0).(type) {
		case SliceV:
			return v.Len
		case StringV:
			return v.Len
		case ArrayV:
			return b.Int(v.N)
		case PtrV:
			if at, ok := v.Elem.Underlying().(*types.Array); ok {
				return b.Int(at.Len())
			}
		}
		specFail("len of unsupported value in %s", e.String())
	case "cap":
		need(1)
		switch v := arg(0).(type) {
		case SliceV:
			return v.Cap
		case ArrayV:
			return b.Int(v.N)
		case PtrV:
			if at, ok := v.Elem.Underlying().(*types.Array); ok {
				return b.Int(at.Len())
			}
		}
		specFail("cap of unsupported value in %s", e.String())
	case "int", "uint", "byte", "uint8", "uint16", "uint32", "uint64", "int64", "int32", "uintptr":
		need(1)
		return x.evalInt(ctx, e.Args[0]) // specs use mathematical integers
	case "ite":
		need(3)
		c := x.evalBool(ctx, e.Args[0])
		l, r := arg(1), arg(2)
		lt, ok1 := l.(*Term)
		rt, ok2 := r.(*Term)
		if !ok1 || !ok2 {
			specFail("ite branches must be scalars in %s", e.String())
		}
		return b.Ite(c, lt, rt)
	case "min", "max":
		need(2)
		l, r := x.evalInt(ctx, e.Args[0]), x.evalInt(ctx, e.Args[1])
		if e.Name == "min" {
			return b.Ite(b.Le(l, r), l, r)
		}
		return b.Ite(b.Le(l, r), r, l)
	case "fresh":
		need(1)
		switch v := arg(0).(type) {
		case SliceV:
			return b.Lt(v.Obj, b.Int(0))
		case PtrV:
			return b.Lt(v.Obj, b.Int(0))
		}
		specFail("fresh() of non-reference in %s", e.String())
	case "nonnil":
		need(1)
		return b.Not(x.specEqual(ctx, arg(0), nilV{}, e))
	case "isnil":
		need(1)
		return x.specEqual(ctx, arg(0), nilV{}, e)
	case "disjoint":
		need(2)
		l, ok1 := arg(0).(SliceV)
		r, ok2 := arg(1).(SliceV)
		if !ok1 || !ok2 {
			specFail("disjoint() needs slices in %s", e.String())
		}
		return b.Or(b.Ne(l.Obj, r.Obj), b.Le(b.Add(l.Off, l.Len), r.Off), b.Le(b.Add(r.Off, r.Len), l.Off), b.Eq(l.Len, b.Int(0)), b.Eq(r.Len, b.Int(0)))
	case "disjointcap":
		need(2)
		l, ok1 := arg(0).(SliceV)
		r, ok2 := arg(1).(SliceV)
		if !ok1 || !ok2 {
			specFail("disjointcap() needs slices in %s", e.String())
		}
		return b.Or(b.Ne(l.Obj, r.Obj), b.Le(b.Add(l.Off, l.Cap), r.Off), b.Le(b.Add(r.Off, r.Cap), l.Off))
	case "id":
		// identity of an object or of an interface value (type tag and payload)
		need(1)
		switch v := arg(0).(type) {
		case IfaceV:
			return b.App("iface!id", SInt, v.Typ, v.Val)
		case PtrV:
			return v.Obj
		case *Term:
			return v
		}
		specFail("id() of unsupported value in %s", e.String())
	case "lemmainst":
		// lemmainst(name, args...): the named (separately proved) lemma instantiated with the arguments
		if len(e.Args) < 1 || e.Args[0].Kind != "ident" {
			specFail("lemmainst(name, args...)")
		}
		lm := x.db.lemma(e.Args[0].Name)
		if lm == nil {
			specFail("lemmainst: unknown lemma %s", e.Args[0].Name)
		}
		if len(e.Args)-1 != len(lm.Vars) {
			specFail("lemmainst %s: %d arguments for %d variables", lm.Name, len(e.Args)-1, len(lm.Vars))
		}
		vals := map[string]*Term{}
		for j, v := range lm.Vars {
			n, _, _ := strings.Cut(v, ":")
			t, ok := arg(j + 1).(*Term)
			if !ok {
				specFail("lemmainst %s: argument %d is not a term", lm.Name, j+1)
			}
			vals[n] = t
		}
		inst := x.lemmaTerm(lm, func(n, s string) *Term {
			if vals[n].Sort != s {
				specFail("lemmainst %s: argument %s has sort %s, want %s", lm.Name, n, vals[n].Sort, s)
			}
			return vals[n]
		})
		if lm.Induct != "" {
			inst = b.Implies(b.Le(b.Int(0), vals[lm.Induct]), inst)
		}
		x.usedLemmas[lm.Name] = true
		x.lemmaFacts = append(x.lemmaFacts, inst)
		return inst
	case "keepq":
		// keepq(E): evaluate E without expanding literal-bounded quantifiers
		need(1)
		c2 := *ctx
		c2.noExpand = true
		return x.eval(&c2, e.Args[0])
	case "as":
		// as(x, T): the interface value x viewed as a *T (its dynamic type is asserted separately with typeis)
		need(2)
		iv, ok := arg(0).(IfaceV)
		if !ok {
			specFail("as() needs an interface value in %s", e.String())
		}
		t := x.resolveType(ctx, e.Args[1])
		return PtrV{Obj: iv.Val, Off: b.Int(0), Elem: t}
	case "upd":
		// upd(a, i, v): array a with element i set to v
		need(3)
		a, ok := arg(0).(*Term)
		if !ok || !strings.HasPrefix(a.Sort, "(Array ") {
			specFail("upd() needs an array term in %s", e.String())
		}
		return b.Store(a, x.evalInt(ctx, e.Args[1]), x.evalInt(ctx, e.Args[2]))
	case "defined":
		// defined(x): the local variable x has a value on this path (assert at return, early returns)
		need(1)
		if e.Args[0].Kind != "ident" {
			specFail("defined(name)")
		}
		if ctx.fr == nil {
			return b.Bool(false)
		}
		_, ok := x.lookupLocal(ctx.st, ctx.fr, e.Args[0].Name)
		return b.Bool(ok)
	case "state":
		// state(): the memory as it is now (bind it with "let"/"loop N let", compare with unchanged)
		need(0)
		return SnapV{Snap: ctx.st.snapshot()}
	case "unchanged":
		// unchanged(S, loc): the location holds what it held in state S
		need(2)
		sv, ok := arg(0).(SnapV)
		if !ok {
			specFail("unchanged(S, loc): S must be bound to state() in %s", e.String())
		}
		var cs []*Term
		for _, l := range x.evalLoc(ctx, e.Args[1]) {
			es := arrElem(l.Sort)
			cur := b.Select(ctx.st.heap(x, l.Heap, l.Sort), l.Obj)
			old := b.Select(sv.Snap.lookup(x, l.Heap, l.Sort), l.Obj)
			if l.Lo == nil {
				cs = append(cs, b.Eq(cur, old))
				continue
			}
			ees := arrElem(es)
			k := b.Var(fmt.Sprintf("k!uc%d", x.qcount()), SInt)
			cs = append(cs, b.Forall([]*Term{k}, b.Or(b.Not(b.And(b.Le(l.Lo, k), b.Lt(k, l.Hi))),
				b.Eq(b.mk("select", ees, "", nil, cur, k), b.mk("select", ees, "", nil, old, k)))))
		}
		return b.And(cs...)
	case "sameobj":
		need(2)
		return b.Eq(objOf(arg(0)), objOf(arg(1)))
	case "objof":
		need(1)
		return objOf(arg(0))
	case "offof":
		need(1)
		switch v := arg(0).(type) {
		case SliceV:
			return v.Off
		case PtrV:
			return v.Off
		}
		specFail("offof() of non-reference in %s", e.String())
	case "sameslice":
		need(2)
		l, ok1 := arg(0).(SliceV)
		r, ok2 := arg(1).(SliceV)
		if !ok1 || !ok2 {
			specFail("sameslice() needs slices in %s", e.String())
		}
		return b.And(b.Eq(l.Obj, r.Obj), b.Eq(l.Off, r.Off), b.Eq(l.Len, r.Len), b.Eq(l.Cap, r.Cap))
	case "typeis":
		need(2)
		iv, ok := arg(0).(IfaceV)
		if !ok {
			specFail("typeis() needs an interface value in %s", e.String())
		}
		t := x.resolveType(ctx, e.Args[1])
		return b.Eq(iv.Typ, x.typeID(t))
	case "arr":
		// arr(s): the SMT array holding the elements of the object s points into
		need(1)
		return x.arrOf(ctx, arg(0), e)
	case "onlychanged":
		// onlychanged(s): outside the window of s, the object s points into is as at function entry
		need(1)
		sv, ok := arg(0).(SliceV)
		if !ok {
			specFail("onlychanged() needs a slice in %s", e.String())
		}
		if ctx.old == nil {
			specFail("onlychanged() needs an entry state")
		}
		var cs []*Term
		for _, hr := range x.elemHeaps(sv.Elem) {
			hs := SArr(SInt, SArr(SInt, hr.es))
			cur := b.Select(ctx.st.heap(x, hr.name, hs), sv.Obj)
			old := b.Select(ctx.old.lookup(x, hr.name, hs), sv.Obj)
			k := b.Var(fmt.Sprintf("k!oc%d", x.qcount()), SInt)
			cs = append(cs, b.Forall([]*Term{k}, b.Or(b.And(b.Le(sv.Off, k), b.Lt(k, b.Add(sv.Off, sv.Len))),
				b.Eq(b.mk("select", hr.es, "", nil, cur, k), b.mk("select", hr.es, "", nil, old, k)))))
		}
		return b.Implies(b.Lt(b.Int(0), sv.Obj), b.And(cs...)) // fresh objects have no entry content
	case "pow2":
		need(1)
		n := x.evalInt(ctx, e.Args[0])
		if n.Op == "int" && n.Val.IsInt64() && n.Val.Int64() >= 0 && n.Val.Int64() < 4096 {
			return b.IntB(pow2(uint(n.Val.Int64())))
		}
		x.usePow2 = true
		return b.App("pow2", SInt, n)
	case "ghost":
		// ghost(H, obj): value of ghost heap H at object obj
		need(2)
		if e.Args[0].Kind != "ident" {
			specFail("ghost(H, obj): H must be a ghost heap name")
		}
		es, ok := x.db.Ghosts[e.Args[0].Name]
		if !ok {
			specFail("unknown ghost heap %s", e.Args[0].Name)
		}
		h := ctx.st.heap(x, "G_"+e.Args[0].Name, SArr(SInt, es))
		return b.Select(h, objOf(arg(1)))
	}
	if reBitFn.MatchString(e.Name) {
		need(2)
		l, r := x.evalInt(ctx, e.Args[0]), x.evalInt(ctx, e.Args[1])
		if strings.HasPrefix(e.Name, "bxor") || strings.HasPrefix(e.Name, "bor") || (strings.HasPrefix(e.Name, "band") && !strings.HasPrefix(e.Name, "bandnot")) {
			if l.id > r.id {
				l, r = r, l
			}
			if strings.HasPrefix(e.Name, "bxor") {
				x.useBitAxioms["bxor"] = true
			}
		}
		return b.App(e.Name, SInt, l, r)
	}
	if p, ok := x.db.Preds[e.Name]; ok {
		if len(p.Params) != len(e.Args) {
			specFail("%s expects %d arguments", e.Name, len(p.Params))
		}
		c2 := *ctx
		c2.names = map[string]Value{}
		for k, v := range ctx.names {
			c2.names[k] = v
		}
		for i, pn := range p.Params {
			c2.names[pn] = arg(i)
		}
		c2.fr = nil
		return x.eval(&c2, p.Body)
	}
	if sf, ok := x.db.SpecFns[e.Name]; ok {
		var args []*Term
		for i := range e.Args {
			if e.Args[i].Kind == "call" && e.Args[i].Name == "seq" {
				sv, ok := x.eval(ctx, e.Args[i].Args[0]).(SliceV)
				if !ok {
					specFail("seq() needs a slice in %s", e.String())
				}
				args = append(args, x.arrOf(ctx, sv, e), sv.Off, sv.Len)
				continue
			}
			t, ok := arg(i).(*Term)
			if !ok {
				if o, ok2 := arg(i).(PtrV); ok2 {
					t = o.Obj
				} else {
					specFail("argument %d of %s is not a term in %s", i, e.Name, e.String())
				}
			}
			args = append(args, t)
		}
		if len(args) != len(sf.Args) {
			specFail("%s expects %d arguments, got %d in %s", e.Name, len(sf.Args), len(args), e.String())
		}
		for i, a := range args {
			if a.Sort != sf.Args[i] {
				specFail("argument %d of %s has sort %s, want %s in %s", i, e.Name, a.Sort, sf.Args[i], e.String())
			}
		}
		x.usedSpecFns[e.Name] = true
		return b.mkApp(sf, args)
	}
	specFail("unknown function %s in %s", e.Name, e.String())
	return nil
}

func (b *TermBank) mkApp(sf *SpecFn, args []*Term) *Term {
	if _, ok := b.funcs[sf.Name]; !ok {
		b.funcs[sf.Name] = &funcDecl{sf.Name, sf.Args, sf.Ret}
	}
	return b.mk("app", sf.Ret, sf.Name, nil, args...)
}

func objOf(v Value) *Term {
	switch r := v.(type) {
	case SliceV:
		return r.Obj
	case PtrV:
		return r.Obj
	case *Term:
		return r
	case IfaceV:
		return r.Val
	case MapV:
		return r.ID
	}
	specFail("object of %T", v)
	return nil
}

func (x *Exec) arrOf(ctx *SpecCtx, v Value, e *Expr) *Term {
	b := x.b
	var obj *Term
	var elem types.Type
	switch r := v.(type) {
	case SliceV:
		obj, elem = r.Obj, r.Elem
	case PtrV:
		at, ok := r.Elem.Underlying().(*types.Array)
		if !ok {
			specFail("arr() of pointer to non-array in %s", e.String())
		}
		obj, elem = r.Obj, at.Elem()
	case ArrayV:
		if r.Arr != nil {
			return r.Arr
		}
	}
	if obj == nil {
		specFail("arr() of %T in %s", v, e.String())
	}
	hn, es, ok := x.elemHeap(elem)
	if !ok {
		specFail("arr() of composite elements in %s", e.String())
	}
	h := ctx.st.heap(x, hn, SArr(SInt, SArr(SInt, es)))
	return b.Select(h, obj)
}

func (x *Exec) resolveType(ctx *SpecCtx, e *Expr) types.Type {
	// T, *T, pkg.T
	ptr := false
	if e.Kind == "unary" && e.Name == "*" {
		ptr = true
		e = e.Args[0]
	}
	var t types.Type
	switch e.Kind {
	case "ident":
		if ctx.pkg != nil {
			if o := ctx.pkg.Scope().Lookup(e.Name); o != nil {
				t = o.Type()
			}
		}
		if t == nil {
			if o := types.Universe.Lookup(e.Name); o != nil {
				t = o.Type()
			}
		}
	case "field":
		if e.Args[0].Kind == "ident" {
			for path, p := range x.prog.Pkgs {
				if p.Pkg.Name() == e.Args[0].Name || path == e.Args[0].Name {
					if o := p.Pkg.Scope().Lookup(e.Name); o != nil {
						t = o.Type()
						break
					}
				}
			}
		}
	}
	if t == nil {
		specFail("unknown type %s", e.String())
	}
	if ptr {
		return types.NewPointer(t)
	}
	return t
}

// ---------- locations

func (x *Exec) evalLoc(ctx *SpecCtx, e *Expr) []Loc {
	b := x.b
	octx := *ctx
	if ctx.old != nil {
		octx.st = ctx.oldState()
	}
	if e.Kind == "call" && e.Name == "ghost" && len(e.Args) == 2 {
		es, ok := x.db.Ghosts[e.Args[0].Name]
		if !ok {
			specFail("unknown ghost heap %s", e.Args[0].Name)
		}
		return []Loc{{Heap: "G_" + e.Args[0].Name, Sort: SArr(SInt, es), Obj: objOf(x.eval(&octx, e.Args[1]))}}
	}
	if e.Kind == "unary" && e.Name == "*" {
		pv := x.eval(&octx, e.Args[0])
		if iv, isIface := pv.(IfaceV); isIface && iv.Concrete != nil {
			// an "any" argument that statically holds a pointer (ReadASN1Integer(&n))
			pv = iv.Concrete
		}
		p, ok := pv.(PtrV)
		if !ok {
			specFail("modifies *p: p must be a pointer in %s", e.String())
		}
		return x.locsOfObject(&octx, p.Obj, p.Elem, p)
	}
	if e.Kind == "field" {
		base := x.eval(&octx, e.Args[0])
		if p, ok := base.(PtrV); ok {
			s, _ := structOf(p.Elem)
			if s != nil {
				idx, path := findField(s, e.Name)
				if idx < 0 {
					specFail("no field %s in %s", e.Name, e.String())
				}
				for _, i := range path {
					p = x.fieldAddr(octx.st, p, i)
				}
				fp := x.fieldAddr(octx.st, p, idx)
				return x.locsOfPtr(&octx, fp)
			}
		}
	}
	v := x.eval(&octx, e)
	switch r := v.(type) {
	case SliceV:
		var out []Loc
		for _, hr := range x.elemHeaps(r.Elem) {
			out = append(out, Loc{Heap: hr.name, Sort: SArr(SInt, SArr(SInt, hr.es)), Obj: r.Obj, Lo: r.Off, Hi: b.Add(r.Off, r.Len)})
		}
		return out
	case PtrV:
		return x.locsOfPtr(&octx, r)
	}
	specFail("not a location: %s", e.String())
	return nil
}

func (x *Exec) locsOfPtr(ctx *SpecCtx, p PtrV) []Loc {
	if p.FieldOf != nil {
		f := p.FieldOf.Field(p.FieldIdx)
		return x.locsOfComp(f.Type(), func(s string) string { return fieldHeapName(p.FieldTy, f, s) }, p.Obj)
	}
	return x.locsOfObject(ctx, p.Obj, p.Elem, p)
}

func (x *Exec) locsOfComp(t types.Type, hn func(string) string, obj *Term) []Loc {
	mk := func(suffix, sort string) Loc { return Loc{Heap: hn(suffix), Sort: SArr(SInt, sort), Obj: obj} }
	switch u := t.Underlying().(type) {
	case *types.Basic:
		if u.Info()&types.IsString != 0 {
			return []Loc{mk("slen", SInt), mk("sobj", SInt), mk("soff", SInt)}
		}
		if u.Kind() == types.UnsafePointer {
			return []Loc{mk("uptr", SInt)}
		}
		if u.Info()&types.IsFloat != 0 || u.Info()&types.IsComplex != 0 {
			return []Loc{mk("opq", SInt)}
		}
		return []Loc{mk("", x.scalarSort(t))}
	case *types.Pointer:
		r := mk("", SInt)
		r.Ref = true
		if isStructT(u.Elem()) {
			return []Loc{r}
		}
		return []Loc{r, mk("poff", SInt)}
	case *types.Slice:
		return []Loc{mk("obj", SInt), mk("off", SInt), mk("len", SInt), mk("cap", SInt)}
	case *types.Interface:
		return []Loc{mk("ityp", SInt), mk("ival", SInt)}
	case *types.Signature:
		return []Loc{mk("fn", SInt)}
	case *types.Map:
		return []Loc{mk("map", SInt)}
	case *types.Chan:
		return []Loc{mk("chan", SInt)}
	}
	specFail("location of component type %s", t.String())
	return nil
}

// locsOfObject lists all locations of the object obj holding a value of type t.
func (x *Exec) locsOfObject(ctx *SpecCtx, obj *Term, t types.Type, p PtrV) []Loc {
	switch u := t.Underlying().(type) {
	case *types.Struct:
		var out []Loc
		_, owner := structOf(t)
		for i := 0; i < u.NumFields(); i++ {
			f := u.Field(i)
			switch f.Type().Underlying().(type) {
			case *types.Struct, *types.Array:
				so := x.subObj(ctx.st, obj, owner, f)
				out = append(out, x.locsOfObject(ctx, so, f.Type(), PtrV{Obj: so, Off: x.b.Int(0), Elem: f.Type()})...)
			default:
				out = append(out, x.locsOfComp(f.Type(), func(s string) string { return fieldHeapName(owner, f, s) }, obj)...)
			}
		}
		return out
	case *types.Array:
		var out []Loc
		if _, _, ok := x.elemHeap(u.Elem()); !ok {
			switch u.Elem().Underlying().(type) {
			case *types.Struct, *types.Array:
				if u.Len() > 64 {
					specFail("location of large composite array")
				}
				for i := int64(0); i < u.Len(); i++ {
					so := x.elemSubObj(ctx.st, obj, x.b.Add(p.Off, x.b.Int(i)), u.Elem())
					out = append(out, x.locsOfObject(ctx, so, u.Elem(), PtrV{Obj: so, Off: x.b.Int(0), Elem: u.Elem()})...)
				}
				return out
			}
		}
		for _, hr := range x.elemHeaps(u.Elem()) {
			if p.Off.IsLit() && p.Off.Val.Sign() == 0 {
				// the whole array object (it has no elements outside 0..N-1)
				out = append(out, Loc{Heap: hr.name, Sort: SArr(SInt, SArr(SInt, hr.es)), Obj: obj})
				continue
			}
			out = append(out, Loc{Heap: hr.name, Sort: SArr(SInt, SArr(SInt, hr.es)), Obj: obj, Lo: p.Off, Hi: x.b.Add(p.Off, x.b.Int(u.Len()))})
		}
		return out
	}
	// pointer to a scalar element
	var out []Loc
	for _, hr := range x.elemHeaps(t) {
		out = append(out, Loc{Heap: hr.name, Sort: SArr(SInt, SArr(SInt, hr.es)), Obj: obj, Lo: p.Off, Hi: x.b.Add(p.Off, x.b.Int(1))})
	}
	return out
}

func (x *Exec) applyGhostSet(ctx *SpecCtx, gs GhostSet) {
	es, ok := x.db.Ghosts[gs.Heap]
	if !ok {
		specFail("unknown ghost heap %s", gs.Heap)
	}
	octx := *ctx
	if ctx.old != nil {
		octx.st = ctx.oldState()
	}
	obj := objOf(x.eval(&octx, gs.Obj))
	val, ok := x.eval(ctx, gs.E).(*Term)
	if !ok || val.Sort != es {
		specFail("ghostset %s: value has the wrong sort", gs.Heap)
	}
	name := "G_" + gs.Heap
	h := ctx.st.heap(x, name, SArr(SInt, es))
	ctx.st.setHeap(name, x.b.Store(h, obj, val), obj)
}

// absIndex rewrites a quantified body so that array reads use the bound variable itself as
// index (i -> k - c when every read is at c + i): solvers instantiate such quantifiers reliably.
func (x *Exec) absIndex(body *Term, v *Term) (*Term, *Term) {
	b := x.b
	// offsets c of reads at c+v, separately for memory arrays and for spec-function arrays
	var memOffs, specOffs []*Term
	ok := true
	seen := map[*Term]bool{}
	addOff := func(list []*Term, t *Term) []*Term {
		for _, o := range list {
			if o == t {
				return list
			}
		}
		return append(list, t)
	}
	var rec func(t *Term)
	rec = func(t *Term) {
		if !ok || seen[t] || !t.bound {
			return
		}
		seen[t] = true
		if t.Op == "select" && t.Args[1].bound && t.Args[1].Sort == SInt {
			idx := t.Args[1]
			l := b.linOf(idx)
			if c, has := l.terms[v]; has {
				if c.Cmp(big1) != 0 {
					ok = false
					return
				}
				delete(l.terms, v)
				rest := b.fromLin(l)
				if rest.bound {
					ok = false
					return
				}
				if t.Args[0].Op == "app" {
					specOffs = addOff(specOffs, rest)
				} else {
					memOffs = addOff(memOffs, rest)
				}
			}
		}
		for _, a := range t.Args {
			rec(a)
		}
	}
	rec(body)
	if !ok {
		return body, v
	}
	var off *Term
	switch {
	case len(memOffs) >= 1:
		off = memOffs[0]
	case len(memOffs) == 0 && len(specOffs) == 1:
		off = specOffs[0]
	default:
		return body, v
	}
	if off.Op == "int" && off.Val.Sign() == 0 {
		return body, v
	}
	k := b.Var(v.Name+"a", SInt)
	nb := b.Subst(body, map[*Term]*Term{v: b.Sub(k, off)})
	return nb, k
}

// expandBounded turns "forall v :: lo <= v && v < hi ==> P(v)" with literal bounds spanning at
// most 64 values into the conjunction of its instances (exists: "lo <= v && v < hi && P").
func (x *Exec) expandBounded(kind string, body *Term, v *Term) (*Term, bool) {
	b := x.b
	var guard []*Term
	var rest *Term
	if kind == "forall" {
		if body.Op != "=>" {
			return nil, false
		}
		rest = body.Args[1]
		if body.Args[0].Op == "and" {
			guard = body.Args[0].Args
		} else {
			guard = []*Term{body.Args[0]}
		}
	} else {
		if body.Op != "and" {
			return nil, false
		}
		guard = body.Args
	}
	var lo, hi *big.Int
	var others []*Term
	for _, g := range guard {
		used := false
		if (g.Op == "<=" || g.Op == "<") && len(g.Args) == 2 {
			l, r := g.Args[0], g.Args[1]
			adj := int64(0)
			if g.Op == "<" {
				adj = 1
			}
			if l.Op == "int" && r == v {
				c := new(big.Int).Add(l.Val, big.NewInt(adj))
				if lo == nil || c.Cmp(lo) > 0 {
					lo = c
				}
				used = true
			} else if r.Op == "int" && l == v {
				c := new(big.Int).Sub(r.Val, big.NewInt(adj))
				if hi == nil || c.Cmp(hi) < 0 {
					hi = c
				}
				used = true
			}
		}
		if !used {
			others = append(others, g)
		}
	}
	if lo == nil || hi == nil {
		// symbolic window: base <= v < base + c with a literal width c
		var base *Term
		width := int64(-1)
		var rest2 []*Term
		for _, g := range guard {
			if (g.Op == "<=" || g.Op == "<") && len(g.Args) == 2 && g.Args[1] == v && !g.Args[0].bound && g.Args[0].Op != "int" && base == nil {
				base = g.Args[0]
				if g.Op == "<" {
					base = b.Add(base, b.Int(1))
				}
				continue
			}
			rest2 = append(rest2, g)
		}
		if base == nil {
			return nil, false
		}
		var rest3 []*Term
		for _, g := range rest2 {
			if (g.Op == "<=" || g.Op == "<") && len(g.Args) == 2 && g.Args[0] == v && !g.Args[1].bound && width < 0 {
				d := b.Sub(g.Args[1], base)
				if k, ok := d.Int64(); ok {
					if g.Op == "<=" {
						k++
					}
					if k >= 0 && k <= 64 {
						width = k
						continue
					}
				}
			}
			rest3 = append(rest3, g)
		}
		if width < 0 {
			return nil, false
		}
		var inst []*Term
		for k := int64(0); k < width; k++ {
			m := map[*Term]*Term{v: b.Add(base, b.Int(k))}
			var os []*Term
			for _, o := range rest3 {
				os = append(os, b.Subst(o, m))
			}
			if kind == "forall" {
				inst = append(inst, b.Implies(b.And(os...), b.Subst(rest, m)))
			} else {
				inst = append(inst, b.And(os...))
			}
		}
		if kind == "forall" {
			return b.And(inst...), true
		}
		return b.Or(inst...), true
	}
	n := new(big.Int).Sub(hi, lo)
	if n.Sign() < 0 {
		if kind == "forall" {
			return b.True(), true
		}
		return b.False(), true
	}
	if n.Cmp(big.NewInt(63)) > 0 {
		return nil, false
	}
	var inst []*Term
	for i := new(big.Int).Set(lo); i.Cmp(hi) <= 0; i = new(big.Int).Add(i, big1) {
		m := map[*Term]*Term{v: b.IntB(i)}
		if kind == "forall" {
			t := b.Subst(rest, m)
			if len(others) > 0 {
				var os []*Term
				for _, o := range others {
					os = append(os, b.Subst(o, m))
				}
				t = b.Implies(b.And(os...), t)
			}
			inst = append(inst, t)
		} else {
			var os []*Term
			for _, o := range others {
				os = append(os, b.Subst(o, m))
			}
			inst = append(inst, b.And(os...))
		}
	}
	if kind == "forall" {
		return b.And(inst...), true
	}
	return b.Or(inst...), true
}

// evalPkgMember resolves pkg.Name where pkg is the name of a package imported by the package of the
// function under contract and Name is one of its package-level variables or integer/boolean constants
// (e.g. bn256.OrderMinus1Bytes). A local variable or binding of the same name takes precedence.
func (x *Exec) evalPkgMember(ctx *SpecCtx, e *Expr) (Value, bool) {
	if e.Args[0].Kind != "ident" || ctx.pkg == nil || x.prog == nil {
		return nil, false
	}
	pn := e.Args[0].Name
	if _, ok := ctx.names[pn]; ok {
		return nil, false
	}
	if ctx.fr != nil {
		if _, ok := x.lookupLocal(ctx.st, ctx.fr, pn); ok {
			return nil, false
		}
	}
	if ctx.pkg.Scope().Lookup(pn) != nil {
		return nil, false
	}
	for _, imp := range ctx.pkg.Imports() {
		if imp.Name() != pn {
			continue
		}
		obj := imp.Scope().Lookup(e.Name)
		switch o := obj.(type) {
		case *types.Const:
			if o.Val().Kind() == constant.Int {
				bi, _ := new(big.Int).SetString(o.Val().ExactString(), 10)
				return x.b.IntB(bi), true
			}
			if o.Val().Kind() == constant.Bool {
				return x.b.Bool(constant.BoolVal(o.Val())), true
			}
		case *types.Var:
			if sp := x.prog.Pkgs[imp.Path()]; sp != nil {
				if g, ok := sp.Members[e.Name].(*ssa.Global); ok {
					return x.load(ctx.st, x.globalPtr(g)), true
				}
			}
		}
	}
	return nil, false
}
