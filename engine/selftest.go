package main

// Must-fail corpus: every patch under /verif/selftest/mutants is applied to a scratch copy of
// /repo (outside /repo and /verif, removed afterwards); the named obligation has to fail.

import (
	"bytes"
	"fmt"
	"os"
	"os/exec"
	"path/filepath"
	"regexp"
	"sort"
	"strings"
	"sync"
)

var reMutHdr = regexp.MustCompile(`(?m)^# (\w+): (.*)$`)

func selftest(args []string) int {
	only := ""
	if len(args) > 0 {
		only = args[0]
	}
	files, _ := filepath.Glob(filepath.Join(verifDir, "selftest", "mutants", "*.patch"))
	// the changes written by independent sub-agents are part of the corpus too: any violation of
	// their property counts (their meta.json names the obligation that was seen to fail)
	seeds, _ := filepath.Glob(filepath.Join(verifDir, "seeded", "*", "patch.diff"))
	files = append(files, seeds...)
	// and the other direction: edits that keep the property (reformatting, equivalent conditions,
	// new or renamed locals no contract names, reordered independent statements) must stay quiet
	harmless, _ := filepath.Glob(filepath.Join(verifDir, "selftest", "harmless", "*.patch"))
	files = append(files, harmless...)
	sort.Strings(files)
	self, _ := os.Executable()
	type result struct {
		name string
		ok   bool
		msg  string
	}
	var results []result
	var mu sync.Mutex
	var wg sync.WaitGroup
	sem := make(chan struct{}, 2)
	for _, f := range files {
		data, err := os.ReadFile(f)
		if err != nil {
			continue
		}
		h := map[string]string{}
		for _, m := range reMutHdr.FindAllStringSubmatch(string(data), -1) {
			h[m[1]] = strings.TrimSpace(m[2])
		}
		if filepath.Base(f) == "patch.diff" {
			id := filepath.Base(filepath.Dir(f)) // C11-3
			h = map[string]string{"property": strings.SplitN(id, "-", 2)[0], "expect": ""}
			// a seeded change that is recorded as not detected (meta.json "detected": false, with
			// the reason) is listed but not run: it documents a limit of the check, it is not an
			// expectation the check has to meet
			if meta, err := os.ReadFile(filepath.Join(filepath.Dir(f), "meta.json")); err == nil && regexp.MustCompile(`"detected":\s*false`).Match(meta) {
				if only == "" || h["property"] == only {
					fmt.Printf("selftest known-miss seeded/%s (recorded as not detected; see its meta.json)\n", id)
				}
				continue
			}
		}
		if only != "" && h["property"] != only {
			continue
		}
		wg.Add(1)
		go func(f string, h map[string]string) {
			defer wg.Done()
			sem <- struct{}{}
			defer func() { <-sem }()
			name := filepath.Base(f)
			if name == "patch.diff" {
				name = "seeded/" + filepath.Base(filepath.Dir(f))
			}
			scratch, err := os.MkdirTemp("", "gvc-selftest-")
			if err != nil {
				mu.Lock()
				results = append(results, result{name, false, err.Error()})
				mu.Unlock()
				return
			}
			defer os.RemoveAll(scratch)
			repoCopy := filepath.Join(scratch, "repo")
			if out, err := exec.Command("rsync", "-a", "--exclude", ".git", repoDir+"/", repoCopy+"/").CombinedOutput(); err != nil {
				mu.Lock()
				results = append(results, result{name, false, "rsync: " + string(out)})
				mu.Unlock()
				return
			}
			pc := exec.Command("patch", "-p1", "-s", "-i", f)
			pc.Dir = repoCopy
			if out, err := pc.CombinedOutput(); err != nil {
				mu.Lock()
				results = append(results, result{name, false, "patch does not apply: " + trunc(string(out), 300)})
				mu.Unlock()
				return
			}
			cmd := exec.Command(self, "check", h["property"], "quick")
			cmd.Env = append(os.Environ(), "VERIF_TIER=quick", "VERIF_REPO="+repoCopy, "VERIF_OUT="+filepath.Join(scratch, "out"), "VERIF_DIR="+verifDir, "VERIF_NOBOUNDED="+h["nobounded"])
			var out bytes.Buffer
			cmd.Stdout = &out
			cmd.Stderr = &out
			cmd.Run()
			code := cmd.ProcessState.ExitCode()
			txt := out.String()
			ok := code == 1 && strings.Contains(txt, "VIOLATION property="+h["property"])
			if filepath.Base(filepath.Dir(f)) == "harmless" {
				ok = code == 0 && !strings.Contains(txt, "VIOLATION")
				h["expect"] = ""
				name = "harmless/" + name
			}
			msg := ""
			for _, exp := range strings.Split(h["expect"], "|") {
				exp = strings.TrimSpace(exp)
				if exp != "" && !strings.Contains(txt, exp) {
					ok = false
					msg = "expected failing obligation " + exp
				}
			}
			if !ok && msg == "" {
				msg = fmt.Sprintf("exit %d, output: %s", code, trunc(txt, 400))
			}
			mu.Lock()
			results = append(results, result{name, ok, msg})
			mu.Unlock()
		}(f, h)
	}
	wg.Wait()
	sort.Slice(results, func(i, j int) bool { return results[i].name < results[j].name })
	bad := 0
	for _, r := range results {
		if r.ok {
			fmt.Printf("selftest ok    %s\n", r.name)
		} else {
			fmt.Printf("selftest FAIL  %s: %s\n", r.name, r.msg)
			bad++
		}
	}
	fmt.Printf("selftest: %d changes, %d with the wrong outcome\n", len(results), bad)
	if bad > 0 {
		return 2
	}
	return 0
}
