package main

import (
	"bytes"
	"context"
	"fmt"
	"os"
	"os/exec"
	"path/filepath"
	"strings"
	"sync"
	"time"
)

type SolveResult struct {
	Status  string // "unsat", "sat", "unknown", "timeout", "error"
	Backend string
	Time    float64
	Output  string // full output of the deciding solver (model for sat)
	Detail  string // per-solver statuses
}

type solverSpec struct {
	name string
	argv func(file string, timeoutS int) []string
}

var solvers = []solverSpec{
	{"z3-new", func(f string, t int) []string { return []string{"z3-new", fmt.Sprintf("-T:%d", t), f} }},
	{"z3", func(f string, t int) []string { return []string{"z3", fmt.Sprintf("-T:%d", t), f} }},
	{"cvc5", func(f string, t int) []string {
		return []string{"cvc5", "--produce-models", fmt.Sprintf("--tlimit=%d", t*1000), f}
	}},
}

var solverSem = make(chan struct{}, 16)

// Solve races the installed solvers on one script. The first unsat/sat answer wins.
func Solve(file string, timeoutS int, only []string) SolveResult {
	return SolveCtx(context.Background(), file, timeoutS, only)
}

// SolveCtx is Solve under a parent context: cancelling it stops the solver processes (used to stop the
// losing query of a race as soon as the other one has proved the goal).
func SolveCtx(parent context.Context, file string, timeoutS int, only []string) SolveResult {
	ctx, cancel := context.WithTimeout(parent, time.Duration(timeoutS+2)*time.Second)
	defer cancel()
	type one struct {
		name, status, out string
		t                 float64
	}
	ch := make(chan one, len(solvers))
	n := 0
	for _, s := range solvers {
		if len(only) > 0 {
			found := false
			for _, o := range only {
				if o == s.name {
					found = true
				}
			}
			if !found {
				continue
			}
		}
		n++
		go func(s solverSpec) {
			solverSem <- struct{}{}
			defer func() { <-solverSem }()
			if ctx.Err() != nil {
				ch <- one{s.name, "cancelled", "", 0}
				return
			}
			start := time.Now()
			argv := s.argv(file, timeoutS)
			cmd := exec.CommandContext(ctx, argv[0], argv[1:]...)
			var out bytes.Buffer
			cmd.Stdout = &out
			cmd.Stderr = &out
			_ = cmd.Run()
			el := time.Since(start).Seconds()
			txt := out.String()
			for strings.HasPrefix(txt, "WARNING") {
				// solver warnings precede the answer
				if k := strings.IndexByte(txt, '\n'); k >= 0 {
					txt = txt[k+1:]
				} else {
					break
				}
			}
			first := strings.TrimSpace(strings.SplitN(txt, "\n", 2)[0])
			st := "error"
			switch {
			case first == "unsat":
				st = "unsat"
			case first == "sat":
				st = "sat"
			case first == "unknown":
				st = "unknown"
			case first == "timeout" || strings.Contains(first, "timeout") || strings.Contains(first, "interrupted"):
				st = "timeout"
			case ctx.Err() == context.Canceled:
				st = "cancelled"
			case ctx.Err() != nil:
				st = "timeout"
			}
			ch <- one{s.name, st, txt, el}
		}(s)
	}
	var res SolveResult
	res.Status = "unknown"
	var details []string
	got := 0
	decided := false
	start := time.Now()
	var firstErr string
	for got < n {
		o := <-ch
		got++
		details = append(details, fmt.Sprintf("%s=%s(%.2fs)", o.name, o.status, o.t))
		if o.status == "error" && firstErr == "" {
			firstErr = o.name + ": " + trunc(o.out, 300)
		}
		if !decided && (o.status == "unsat" || o.status == "sat") {
			decided = true
			res.Status = o.status
			res.Backend = o.name
			res.Output = o.out
			res.Time = o.t
			cancel()
		} else if decided && (o.status == "unsat" || o.status == "sat") && o.status != res.Status {
			res.Status = "error"
			res.Detail = "SOLVER DISAGREEMENT"
		}
		if !decided && o.status == "timeout" && res.Status == "unknown" {
			res.Status = "timeout"
		}
	}
	if !decided {
		res.Time = time.Since(start).Seconds()
		allErr := true
		for _, d := range details {
			if !strings.Contains(d, "=error") {
				allErr = false
			}
		}
		if allErr {
			res.Status = "error"
			res.Output = firstErr
		}
	}
	res.Detail += strings.Join(details, " ")
	return res
}

func trunc(s string, n int) string {
	if len(s) > n {
		return s[:n] + "..."
	}
	return s
}

// ---------- obligations

type Obligation struct {
	Name     string // pkg.func/kind:detail@cfg
	Func     string
	Kind     string
	Property []string
	Assume   []*Term
	Goal     *Term
	Bank     *TermBank
	Prelude  string // extra raw SMT-LIB text placed after the spec prelude
	chunks   *preludeInfo
	Axioms   func(seen map[*Term]bool) []*Term
	Expect   string // "unsat" normally; "sat" for cover (vacuity) checks
	Pos      string // source position (informational only)
	Info     string // clause text etc.
	// results
	Result     SolveResult
	File       string
	RawScript  string
	Trivial    bool  // discharged by the simplifier
	X          *Exec // execution context (for replay)
	timeout    int
	capTimeout int // known findings: do not spend the full timeout on an obligation known to fail
}

func (o *Obligation) OK() bool {
	if o.Trivial {
		return true
	}
	if o.expect() == "notunsat" {
		return o.Result.Status != "unsat" && o.Result.Status != "error"
	}
	return o.Result.Status == o.expect()
}
func (o *Obligation) expect() string {
	if o.Expect == "" {
		return "unsat"
	}
	return o.Expect
}

const maxScriptBytes = 4 << 20

// Discharge runs all obligations in parallel and fills in their results.
func Discharge(obls []*Obligation, workdir string, timeoutS int) error {
	if err := os.MkdirAll(workdir, 0o755); err != nil {
		return err
	}
	var wg sync.WaitGroup
	par := make(chan struct{}, 8)
	var mu sync.Mutex
	var firstErr error
	for i, o := range obls {
		if o.Goal != nil && o.Goal.IsTrue() && o.expect() == "unsat" {
			o.Trivial = true
			o.Result = SolveResult{Status: "unsat", Backend: "simplifier"}
			continue
		}
		if o.expect() == "unsat" {
			// contradictory path condition detected syntactically
			for _, a := range o.Assume {
				if a.IsFalse() {
					o.Trivial = true
					o.Result = SolveResult{Status: "unsat", Backend: "simplifier"}
				}
			}
			if o.Trivial {
				continue
			}
		}
		script := ""
		if o.RawScript != "" {
			script = o.RawScript
		} else {
			script = o.Bank.Script(o.Assume, o.Goal, o.chunks, o.Prelude, o.Axioms)
		}
		if len(script) > maxScriptBytes {
			mu.Lock()
			firstErr = fmt.Errorf("obligation %s: script of %d bytes exceeds the %d byte cap", o.Name, len(script), maxScriptBytes)
			mu.Unlock()
			continue
		}
		o.File = filepath.Join(workdir, fmt.Sprintf("%04d_%s.smt2", i, sanitize(o.Name)))
		if len(o.File) > 200 {
			o.File = o.File[:190] + ".smt2"
		}
		hdr := fmt.Sprintf("; obligation %s\n; %s\n; expect %s\n", o.Name, strings.ReplaceAll(o.Info, "\n", " "), o.expect())
		tail := ""
		if o.expect() == "unsat" {
			tail = "(get-model)\n"
		}
		if err := os.WriteFile(o.File, []byte(hdr+script+tail), 0o644); err != nil {
			return err
		}
		wg.Add(1)
		go func(o *Obligation) {
			defer wg.Done()
			par <- struct{}{}
			defer func() { <-par }()
			to := timeoutS
			if o.timeout > to || (o.timeout > 0 && o.expect() == "notunsat") {
				to = o.timeout
			}
			if o.capTimeout > 0 && to > o.capTimeout {
				to = o.capTimeout
			}
			splittable := o.expect() == "unsat" && o.RawScript == "" && o.Goal != nil && o.Goal.Op == "and" && len(o.Goal.Args) <= 64
			if splittable && len(o.Goal.Args) >= 4 {
				// conjunctive goals (expanded block-wise quantifiers): prove the conjuncts one by one,
				// racing against the undivided goal (some goals - e.g. byte-decomposition uniqueness -
				// are easy as a whole and hard conjunct by conjunct); whichever proves it first wins
				wctx, wcancel := context.WithCancel(context.Background())
				sctx, scancel := context.WithCancel(context.Background())
				whole := make(chan SolveResult, 1)
				go func() { whole <- SolveCtx(wctx, o.File, to, nil) }()
				type sres struct {
					r  SolveResult
					ok bool
				}
				split := make(chan sres, 1)
				go func() { r, ok := solveSplitCtx(sctx, o, to); split <- sres{r, ok} }()
				done := false
				for i := 0; i < 2 && !done; i++ {
					select {
					case r := <-whole:
						if r.Status == "unsat" {
							o.Result = r
							done = true
						}
					case s := <-split:
						if s.ok {
							o.Result = s.r
							done = true
						}
					}
				}
				wcancel()
				scancel()
				if done {
					return
				}
			}
			o.Result = solveWithRelevance(o, to)
			if (o.Result.Status == "timeout" || o.Result.Status == "unknown") && splittable && len(o.Goal.Args) < 4 {
				if r, ok := solveSplit(o, to); ok {
					o.Result = r
				}
			}
			if (o.Result.Status == "timeout" || o.Result.Status == "unknown") && o.expect() == "unsat" && o.RawScript == "" && o.Goal != nil {
				// fallback: fewer assumptions (only those related to the goal); unsat remains a proof
				for depth := 2; depth <= 2; depth++ {
					sub := relevantAssumptions(o.Assume, o.Goal, depth)
					if len(sub) == len(o.Assume) {
						break
					}
					sc := o.Bank.Script(sub, o.Goal, o.chunks, o.Prelude, o.Axioms)
					f := fmt.Sprintf("%s.rel%d.smt2", strings.TrimSuffix(o.File, ".smt2"), depth)
					os.WriteFile(f, []byte(sc), 0o644)
					r := Solve(f, to, nil)
					if r.Status == "unsat" {
						r.Backend += fmt.Sprintf("(rel%d)", depth)
						r.Time += o.Result.Time
						r.Detail = fmt.Sprintf("proved from %d of %d assumptions; ", len(sub), len(o.Assume)) + r.Detail
						o.Result = r
						break
					}
				}
			}
		}(o)
	}
	wg.Wait()
	return firstErr
}

// solveSplit proves a conjunctive goal conjunct by conjunct under the same assumptions.
func solveSplit(o *Obligation, to int) (SolveResult, bool) {
	return solveSplitCtx(context.Background(), o, to)
}

func solveSplitCtx(ctx context.Context, o *Obligation, to int) (SolveResult, bool) {
	total := 0.0
	backend := ""
	type res struct {
		r SolveResult
	}
	results := make([]SolveResult, len(o.Goal.Args))
	var wg sync.WaitGroup
	lim := make(chan struct{}, 4)
	for k, g := range o.Goal.Args {
		wg.Add(1)
		go func(k int, g *Term) {
			defer wg.Done()
			lim <- struct{}{}
			defer func() { <-lim }()
			if g.IsTrue() {
				results[k] = SolveResult{Status: "unsat", Backend: "simplifier"}
				return
			}
			sc := o.Bank.Script(o.Assume, g, o.chunks, o.Prelude, o.Axioms)
			f := fmt.Sprintf("%s.part%d.smt2", strings.TrimSuffix(o.File, ".smt2"), k)
			os.WriteFile(f, []byte(sc), 0o644)
			results[k] = SolveCtx(ctx, f, to, nil)
		}(k, g)
	}
	wg.Wait()
	for _, r := range results {
		total += r.Time
		if r.Status != "unsat" {
			return SolveResult{}, false
		}
		if r.Backend != "simplifier" {
			backend = r.Backend
		}
	}
	return SolveResult{Status: "unsat", Backend: backend + "(split)", Time: total, Detail: fmt.Sprintf("proved as %d separate conjuncts", len(o.Goal.Args))}, true
}

func isHeapRoot(t *Term) bool {
	return t.Op == "const" && (strings.HasPrefix(t.Name, "H_") || strings.HasPrefix(t.Name, "F_") || strings.HasPrefix(t.Name, "G_"))
}

// keyTerms collects the compound subterms (and non-heap leaf symbols) of t.
func keyTerms(t *Term, into map[*Term]bool) {
	if into[t] {
		return
	}
	switch {
	case t.IsLit() || t.Op == "true" || t.Op == "false" || t.Op == "var":
		return
	case len(t.Args) == 0:
		if !isHeapRoot(t) {
			into[t] = true
		}
		return
	}
	switch t.Op {
	case "and", "or", "not", "=>", "=", "<", "<=", "ite", "forall", "exists", "+", "*":
		// logical/arithmetic structure is not a key by itself
	default:
		if !t.bound {
			into[t] = true
		}
	}
	for _, a := range t.Args {
		keyTerms(a, into)
	}
}

// relevantAssumptions keeps the assumptions that share a key term with the goal (depth 1) or with
// an assumption kept before (depth 2).
func relevantAssumptions(assume []*Term, goal *Term, depth int) []*Term {
	keys := map[*Term]bool{}
	keyTerms(goal, keys)
	kept := make([]bool, len(assume))
	fkeys := make([][]*Term, len(assume))
	for i, f := range assume {
		fkeys[i] = cachedKeys(f)
	}
	for d := 0; d < depth; d++ {
		var add []*Term
		for i := range assume {
			if kept[i] {
				continue
			}
			for _, k := range fkeys[i] {
				if keys[k] {
					kept[i] = true
					break
				}
			}
			if kept[i] {
				add = append(add, fkeys[i]...)
			}
		}
		for _, k := range add {
			keys[k] = true
		}
	}
	var out []*Term
	for i, f := range assume {
		if kept[i] {
			out = append(out, f)
		}
	}
	return out
}

var keyCacheMu sync.Mutex
var keyCache = map[*Term][]*Term{}

func cachedKeys(f *Term) []*Term {
	keyCacheMu.Lock()
	if k, ok := keyCache[f]; ok {
		keyCacheMu.Unlock()
		return k
	}
	keyCacheMu.Unlock()
	m := map[*Term]bool{}
	keyTerms(f, m)
	ks := make([]*Term, 0, len(m))
	for k := range m {
		ks = append(ks, k)
	}
	keyCacheMu.Lock()
	keyCache[f] = ks
	keyCacheMu.Unlock()
	return ks
}

// solveWithRelevance runs the full query and, if that takes more than a moment, races it against
// the query restricted to the assumptions that share a term with the goal. unsat of either is a
// proof; sat/unknown count only for the full query.
func solveWithRelevance(o *Obligation, to int) SolveResult {
	if o.expect() != "unsat" || o.RawScript != "" || o.Goal == nil || len(o.Assume) < 24 {
		return Solve(o.File, to, nil)
	}
	type tagged struct {
		r    SolveResult
		full bool
	}
	ch := make(chan tagged, 2)
	rctx, rcancel := context.WithCancel(context.Background())
	defer rcancel() // stops whichever query is still running when the result is known
	go func() { ch <- tagged{SolveCtx(rctx, o.File, to, nil), true} }()
	select {
	case first := <-ch:
		return first.r
	case <-time.After(1200 * time.Millisecond):
	}
	sub := relevantAssumptions(o.Assume, o.Goal, 1)
	if len(sub) >= len(o.Assume) {
		return (<-ch).r
	}
	sc := o.Bank.Script(sub, o.Goal, o.chunks, o.Prelude, o.Axioms)
	f := strings.TrimSuffix(o.File, ".smt2") + ".rel1.smt2"
	os.WriteFile(f, []byte(sc), 0o644)
	go func() { ch <- tagged{SolveCtx(rctx, f, to, nil), false} }()
	label := func(t tagged) SolveResult {
		if !t.full {
			t.r.Backend += "(rel1)"
			t.r.Detail = fmt.Sprintf("proved from %d of %d assumptions; ", len(sub), len(o.Assume)) + t.r.Detail
		}
		return t.r
	}
	first := <-ch
	if first.r.Status == "unsat" || (first.full && first.r.Status == "sat") {
		go func() { <-ch }()
		return label(first)
	}
	second := <-ch
	if second.r.Status == "unsat" {
		return label(second)
	}
	if first.full {
		return first.r
	}
	return second.r
}
