package main

import (
	"bytes"
	"encoding/json"
	"fmt"
	"os"
	"os/exec"
	"path/filepath"
	"regexp"
	"sort"
	"strings"
	"time"
)

// Bounded stand-ins (DESIGN §2.8): in-package differential tests for functions whose contracts
// are assumed (assembly). They are labelled bounded and never counted as proved.

type BoundedResult struct {
	Name     string   `json:"name"`
	Function string   `json:"function"`
	Package  string   `json:"package"`
	Tiers    []string `json:"tiers"`
	Bound    string   `json:"bound"`
	Cases    int      `json:"cases"`
	Failed   int      `json:"failed"`
	Seconds  float64  `json:"seconds"`
	Replay   string   `json:"replay,omitempty"`
	Label    string   `json:"label"`
}

var reBoundedHdr = regexp.MustCompile(`(?m)^// bounded: (\w+)=(.*)$`)
var reCases = regexp.MustCompile(`BOUNDED-CASES (\d+)`)

type tierSpec struct {
	name string
	env  []string
	tags string
}

var allTiers = []tierSpec{
	{"avx2", nil, ""},
	{"avx", []string{"GODEBUG=cpu.avx2=off"}, ""},
	{"sse", []string{"GODEBUG=cpu.avx2=off,cpu.avx=off"}, ""},
	{"noaes", []string{"GODEBUG=cpu.aes=off"}, ""},
	{"nopclmul", []string{"GODEBUG=cpu.pclmulqdq=off"}, ""},
	{"aesni1", []string{"FORCE_SM4BLOCK_AESNI=1"}, ""},
	{"purego", nil, "purego"},
}

func runBounded(prop, tier string, seed int) []BoundedResult {
	files, _ := filepath.Glob(filepath.Join(verifDir, "bounded", prop, "*_test.go"))
	sort.Strings(files)
	var out []BoundedResult
	for _, f := range files {
		data, err := os.ReadFile(f)
		if err != nil {
			continue
		}
		h := map[string]string{}
		for _, m := range reBoundedHdr.FindAllStringSubmatch(string(data), -1) {
			h[m[1]] = strings.TrimSpace(m[2])
		}
		pkg := h["pkg"]
		if pkg == "" {
			continue
		}
		tiers := strings.Split(h["tiers"], ",")
		if tier == "quick" {
			if q := h["quick"]; q != "" {
				tiers = strings.Split(q, ",")
			} else {
				tiers = tiers[:1]
			}
		}
		br := BoundedResult{Name: strings.TrimSuffix(filepath.Base(f), "_test.go"), Function: h["function"], Package: pkg, Bound: h["bound"], Label: "bounded (not a proof)"}
		start := time.Now()
		for _, tn := range tiers {
			var ts *tierSpec
			for i := range allTiers {
				if allTiers[i].name == strings.TrimSpace(tn) {
					ts = &allTiers[i]
				}
			}
			if ts == nil {
				continue
			}
			br.Tiers = append(br.Tiers, ts.name)
			ok, outp := goTestOverlay(pkg, f, "zz_bounded_"+filepath.Base(f), h["run"], ts, map[string]string{"VERIF_SEED": fmt.Sprint(seed), "VERIF_TIER": tier}, 900)
			for _, m := range reCases.FindAllStringSubmatch(outp, -1) {
				var n int
				fmt.Sscan(m[1], &n)
				br.Cases += n
			}
			if !ok {
				br.Failed++
				dir := filepath.Join(outDir, "replays", prop, "bounded_"+br.Name+"_"+ts.name)
				os.MkdirAll(dir, 0o755)
				os.WriteFile(filepath.Join(dir, "output.txt"), []byte(outp), 0o644)
				os.WriteFile(filepath.Join(dir, "REPLAY.md"), []byte(fmt.Sprintf("# Bounded check failed\n\ncheck: %s\ntier: %s\npackage: %s\n\nThe failing input is printed in output.txt. Re-run: `./check %s thorough`\n", br.Name, ts.name, pkg, prop)), 0o644)
				os.WriteFile(filepath.Join(dir, "result.txt"), []byte("confirmed\n"), 0o644)
				br.Replay = dir
			}
		}
		br.Seconds = time.Since(start).Seconds()
		out = append(out, br)
	}
	return out
}

// goTestOverlay injects one test file into a package of /repo (without writing to /repo) and runs it.
func goTestOverlay(pkg, file, asName, run string, ts *tierSpec, env map[string]string, timeoutS int) (bool, string) {
	work := filepath.Join(outDir, "work", "overlay")
	os.MkdirAll(work, 0o755)
	rel := strings.TrimPrefix(strings.TrimPrefix(pkg, modPath), "/")
	target := filepath.Join(repoDir, rel, asName)
	ov := map[string]map[string]string{"Replace": {target: file}}
	data, _ := json.Marshal(ov)
	ovf, err := os.CreateTemp(work, "ov*.json")
	if err != nil {
		return false, err.Error()
	}
	ovf.Write(data)
	ovf.Close()
	defer os.Remove(ovf.Name())
	args := []string{"test", "-overlay", ovf.Name(), "-vet=off", "-count=1", fmt.Sprintf("-timeout=%ds", timeoutS)}
	tags := "verif"
	if ts != nil && ts.tags != "" {
		tags += "," + ts.tags
	}
	args = append(args, "-tags", tags)
	if run != "" {
		args = append(args, "-run", run)
	}
	args = append(args, "-v", "./"+rel)
	cmd := exec.Command("go", args...)
	cmd.Dir = repoDir
	cmd.Env = append(os.Environ(), "GOFLAGS=-mod=mod", "GOPROXY=off", "GOSUMDB=off", "GOTOOLCHAIN=local")
	if ts != nil {
		cmd.Env = append(cmd.Env, ts.env...)
	}
	for k, v := range env {
		cmd.Env = append(cmd.Env, k+"="+v)
	}
	var out bytes.Buffer
	cmd.Stdout = &out
	cmd.Stderr = &out
	err = cmd.Run()
	return err == nil, out.String()
}
