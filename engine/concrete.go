package main

// Concrete replay: turn a solver model into Go inputs, run the real function in an in-package
// test injected with `go test -overlay`, and check the contract's postconditions / panic freedom.

import (
	"encoding/hex"
	"fmt"
	"go/types"
	"math/big"
	"os"
	"os/exec"
	"path/filepath"
	"regexp"
	"strings"
)

const maxReplayLen = 1 << 16

// modelValues asks the deciding solver for the values of some expressions.
func modelValues(file, backend string, exprs []string, extra []string) (map[string]string, error) {
	if len(exprs) == 0 {
		return map[string]string{}, nil
	}
	data, err := os.ReadFile(file)
	if err != nil {
		return nil, err
	}
	script := strings.Replace(string(data), "(get-model)\n", "", 1)
	if len(extra) > 0 {
		script = strings.Replace(script, "(check-sat)\n", strings.Join(extra, "\n")+"\n(check-sat)\n", 1)
	}
	script += "(get-value (" + strings.Join(exprs, " ") + "))\n"
	tmp := file + ".val.smt2"
	if err := os.WriteFile(tmp, []byte(script), 0o644); err != nil {
		return nil, err
	}
	defer os.Remove(tmp)
	var argv []string
	switch backend {
	case "z3-new":
		argv = []string{"z3-new", "-T:60", tmp}
	case "z3":
		argv = []string{"z3", "-T:60", tmp}
	default:
		argv = []string{"cvc5", "--produce-models", "--tlimit=60000", tmp}
	}
	out, _ := exec.Command(argv[0], argv[1:]...).CombinedOutput()
	txt := string(out)
	if !strings.HasPrefix(strings.TrimSpace(txt), "sat") {
		// another solver may still give a model
		for _, alt := range []string{"z3-new", "z3", "cvc5"} {
			if alt == backend {
				continue
			}
			var av []string
			switch alt {
			case "z3-new":
				av = []string{"z3-new", "-T:60", tmp}
			case "z3":
				av = []string{"z3", "-T:60", tmp}
			default:
				av = []string{"cvc5", "--produce-models", "--tlimit=60000", tmp}
			}
			o2, _ := exec.Command(av[0], av[1:]...).CombinedOutput()
			if strings.HasPrefix(strings.TrimSpace(string(o2)), "sat") {
				txt = string(o2)
				break
			}
		}
		if !strings.HasPrefix(strings.TrimSpace(txt), "sat") {
			return nil, fmt.Errorf("no model on re-run: %s", trunc(txt, 200))
		}
	}
	body := txt[strings.Index(txt, "sat")+3:]
	vals := parseGetValue(body)
	if len(vals) != len(exprs) {
		return nil, fmt.Errorf("get-value returned %d values for %d expressions", len(vals), len(exprs))
	}
	res := map[string]string{}
	for i, e := range exprs {
		res[e] = vals[i]
	}
	return res, nil
}

// parseGetValue extracts the value part of each (expr value) pair of a get-value response.
func parseGetValue(s string) []string {
	s = strings.TrimSpace(s)
	if !strings.HasPrefix(s, "(") {
		return nil
	}
	// split top-level list into pairs
	var pairs []string
	depth := 0
	start := -1
	for i := 0; i < len(s); i++ {
		switch s[i] {
		case '(':
			depth++
			if depth == 2 {
				start = i
			}
		case ')':
			if depth == 2 && start >= 0 {
				pairs = append(pairs, s[start+1:i])
				start = -1
			}
			depth--
		case '|':
			j := strings.IndexByte(s[i+1:], '|')
			if j >= 0 {
				i += j + 1
			}
		}
	}
	var out []string
	for _, p := range pairs {
		// the value is the last s-expression of the pair
		p = strings.TrimSpace(p)
		if strings.HasSuffix(p, ")") {
			d := 0
			k := len(p) - 1
			for ; k >= 0; k-- {
				if p[k] == ')' {
					d++
				} else if p[k] == '(' {
					d--
					if d == 0 {
						break
					}
				}
			}
			out = append(out, p[k:])
		} else {
			k := strings.LastIndexAny(p, " \t\n")
			out = append(out, p[k+1:])
		}
	}
	return out
}

var reNeg = regexp.MustCompile(`^\(\s*-\s*(\d+)\s*\)$`)

func smtInt(v string) (*big.Int, bool) {
	v = strings.TrimSpace(v)
	if m := reNeg.FindStringSubmatch(v); m != nil {
		b, ok := new(big.Int).SetString(m[1], 10)
		if ok {
			b.Neg(b)
		}
		return b, ok
	}
	if strings.HasPrefix(v, "#x") {
		return new(big.Int).SetString(v[2:], 16)
	}
	if strings.HasPrefix(v, "#b") {
		return new(big.Int).SetString(v[2:], 2)
	}
	return new(big.Int).SetString(v, 10)
}

type replayParam struct {
	name string
	typ  types.Type
	val  Value
}

// concreteReplay builds and runs a replay test; it returns true when the real code violates
// the contract (panic or a false postcondition) on the model's inputs.
func concreteReplay(dir string, o *Obligation, progs map[string]*Program) (bool, string) {
	x := o.X
	if x == nil || x.fn == nil || x.fn.Pkg == nil {
		return false, "no-function-context"
	}
	fn := x.fn
	if fn.Parent() != nil || fn.Synthetic != "" {
		return false, "not-a-declared-function"
	}
	qual := func(p *types.Package) string {
		if p == fn.Pkg.Pkg {
			return ""
		}
		return p.Name()
	}
	var params []replayParam
	for _, p := range fn.Params {
		params = append(params, replayParam{p.Name(), p.Type(), x.entry[p.Name()]})
	}
	// 1. scalar components
	var exprs []string
	add := func(t *Term) {
		if t != nil && !t.IsLit() {
			exprs = append(exprs, x.b.sexpr(t, nil))
		}
	}
	for _, p := range params {
		switch v := p.val.(type) {
		case *Term:
			add(v)
		case SliceV:
			add(v.Len)
			add(v.Cap)
			add(v.Obj)
			add(v.Off)
		case StringV:
			add(v.Len)
		default:
			return false, fmt.Sprintf("parameter-%s-of-type-%s-not-constructible", p.name, types.TypeString(p.typ, qual))
		}
	}
	// only symbols declared in the script can be asked for
	script, _ := os.ReadFile(o.File)
	declared := func(e string) bool {
		for _, sym := range reSym.FindAllString(e, -1) {
			if strings.Contains(sym, "!") || strings.Contains(sym, "@") {
				if !strings.Contains(string(script), "(declare-fun "+quoteSym(sym)+" ") && !strings.Contains(string(script), "(declare-fun |"+sym) {
					return false
				}
			}
		}
		return true
	}
	var ask []string
	for _, e := range exprs {
		if declared(e) {
			ask = append(ask, e)
		}
	}
	// prefer small models: bound every slice capacity, relaxing the bound step by step
	var vals map[string]string
	var err error
	var small []string
	for _, bound := range []int{48, 1024, maxReplayLen, 0} {
		small = nil
		if bound > 0 {
			for _, p := range params {
				if v, ok := p.val.(SliceV); ok && !v.Cap.IsLit() && declared(x.b.sexpr(v.Cap, nil)) {
					small = append(small, fmt.Sprintf("(assert (<= %s %d))", x.b.sexpr(v.Cap, nil), bound))
				}
			}
			if len(small) == 0 {
				continue
			}
		}
		vals, err = modelValues(o.File, o.Result.Backend, ask, small)
		if err == nil {
			break
		}
	}
	if err != nil {
		return false, err.Error()
	}
	get := func(t *Term) *big.Int {
		if t.IsLit() {
			return t.Val
		}
		if v, ok := vals[x.b.sexpr(t, nil)]; ok {
			if b, ok := smtInt(v); ok {
				return b
			}
			if v == "true" {
				return big.NewInt(1)
			}
		}
		return new(big.Int)
	}
	// 2. element values
	var ask2 []string
	type sliceInfo struct{ l, c int64 }
	infos := map[string]sliceInfo{}
	for _, p := range params {
		if v, ok := p.val.(SliceV); ok {
			l, c := get(v.Len).Int64(), get(v.Cap).Int64()
			if l > maxReplayLen || c > maxReplayLen || l < 0 || c < l {
				return false, "model-needs-a-huge-allocation"
			}
			infos[p.name] = sliceInfo{l, c}
			hn, es, ok := x.elemHeap(v.Elem)
			if !ok || es != SInt && !isBV(es) {
				return false, "slice-elements-not-constructible"
			}
			heapSym := "|" + hn + "@0|"
			if !strings.Contains(string(script), "(declare-fun "+heapSym+" ") {
				continue
			}
			for i := int64(0); i < c; i++ {
				ask2 = append(ask2, fmt.Sprintf("(select (select %s %s) (+ %s %d))", heapSym, x.b.sexpr(v.Obj, nil), x.b.sexpr(v.Off, nil), i))
			}
		}
	}
	// pin the scalars of the first model so that the element values belong to the same model
	var pin []string
	for _, e := range ask {
		if v, ok := vals[e]; ok {
			pin = append(pin, fmt.Sprintf("(assert (= %s %s))", e, v))
		}
	}
	vals2, err := modelValues(o.File, o.Result.Backend, ask2, pin)
	if err != nil {
		return false, err.Error()
	}
	// 3. generate the test (override: witness bytes for a slice parameter instead of the model's)
	var lastInputs []string
	gen := func(override map[string][]byte) (string, bool, string) {
		var sb strings.Builder
		pkgName := fn.Pkg.Pkg.Name()
		fmt.Fprintf(&sb, "package %s\n\nimport (\n\t\"fmt\"\n\t\"testing\"\n)\n\n", pkgName)
		sb.WriteString("// generated by gvc from a solver model; see REPLAY.md\n\n")
		sb.WriteString(replayHelpers)
		fmt.Fprintf(&sb, "func TestVerifReplay(t *testing.T) {\n")
		var inputsDesc []string
		for _, p := range params {
			ts := types.TypeString(p.typ, qual)
			switch v := p.val.(type) {
			case *Term:
				if v.Sort == SBool {
					fmt.Fprintf(&sb, "\tvar %s %s = %v\n", p.name, ts, get(v).Sign() != 0)
				} else {
					k, _ := basicKind(p.typ)
					val := get(v)
					if val.Cmp(k.lo()) < 0 || val.Cmp(k.hi()) > 0 {
						return "", false, "model-value-outside-type-range"
					}
					fmt.Fprintf(&sb, "\tvar %s %s = %s\n", p.name, ts, val.String())
				}
				inputsDesc = append(inputsDesc, fmt.Sprintf("%s=%s", p.name, get(v)))
			case StringV:
				l := get(v.Len).Int64()
				if l > maxReplayLen {
					return "", false, "model-needs-a-huge-allocation"
				}
				fmt.Fprintf(&sb, "\tvar %s %s = %s(make([]byte, %d))\n", p.name, ts, ts, l)
				inputsDesc = append(inputsDesc, fmt.Sprintf("len(%s)=%d", p.name, l))
			case SliceV:
				inf := infos[p.name]
				if ov, ok := override[p.name]; ok {
					var elems []string
					for _, c := range ov {
						elems = append(elems, fmt.Sprint(c))
					}
					fmt.Fprintf(&sb, "\t%s_backing := []%s{%s}\n", p.name, types.TypeString(v.Elem, qual), strings.Join(elems, ", "))
					fmt.Fprintf(&sb, "\tvar %s %s = %s_backing[:%d:%d]\n", p.name, ts, p.name, len(ov), len(ov))
					inputsDesc = append(inputsDesc, fmt.Sprintf("%s=[witness %x]", p.name, ov))
					continue
				}
				if get(v.Obj).Sign() == 0 && inf.c == 0 {
					fmt.Fprintf(&sb, "\tvar %s %s\n", p.name, ts)
					inputsDesc = append(inputsDesc, p.name+"=nil")
					continue
				}
				ets := types.TypeString(v.Elem, qual)
				var elems []string
				for i := int64(0); i < inf.c; i++ {
					key := fmt.Sprintf("(select (select |%s@0| %s) (+ %s %d))", func() string { h, _, _ := x.elemHeap(v.Elem); return h }(), x.b.sexpr(v.Obj, nil), x.b.sexpr(v.Off, nil), i)
					val := new(big.Int)
					if s, ok := vals2[key]; ok {
						if b, ok := smtInt(s); ok {
							val = b
						}
					}
					if k, ok := basicKind(v.Elem); ok && k.bits > 0 && !k.signed {
						// memory the contract says nothing about may get any integer in the model
						val = new(big.Int).Mod(val, pow2(uint(k.bits)))
					}
					elems = append(elems, val.String())
				}
				fmt.Fprintf(&sb, "\t%s_backing := []%s{%s}\n", p.name, ets, strings.Join(elems, ", "))
				fmt.Fprintf(&sb, "\tvar %s %s = %s_backing[:%d:%d]\n", p.name, ts, p.name, inf.l, inf.c)
				d := strings.Join(elems, " ")
				if len(d) > 200 {
					d = d[:200] + "..."
				}
				inputsDesc = append(inputsDesc, fmt.Sprintf("%s=[len %d cap %d: %s]", p.name, inf.l, inf.c, d))
			}
		}
		// saved copies for old()
		for _, p := range params {
			if _, ok := p.val.(SliceV); ok {
				fmt.Fprintf(&sb, "\told_%s := append(%s(nil), %s[:cap(%s)]...)[:len(%s)]\n\t_ = old_%s\n", p.name, types.TypeString(p.typ, qual), p.name, p.name, p.name, p.name)
			} else {
				fmt.Fprintf(&sb, "\told_%s := %s\n\t_ = old_%s\n", p.name, p.name, p.name)
			}
		}
		// the call
		sig := fn.Signature
		var rnames []string
		for i := 0; i < sig.Results().Len(); i++ {
			rnames = append(rnames, fmt.Sprintf("r%d", i))
		}
		var callee string
		var args []string
		if sig.Recv() != nil {
			callee = params[0].name + "." + fn.Name()
			for _, p := range params[1:] {
				args = append(args, p.name)
			}
		} else {
			callee = fn.Name()
			for _, p := range params {
				args = append(args, p.name)
			}
		}
		if sig.Variadic() && len(args) > 0 {
			args[len(args)-1] += "..."
		}
		for i, rn := range rnames {
			fmt.Fprintf(&sb, "\tvar %s %s\n\t_ = %s\n", rn, types.TypeString(sig.Results().At(i).Type(), qual), rn)
		}
		sb.WriteString("\tpanicked := func() (p interface{}) {\n\t\tdefer func() { p = recover() }()\n\t\t")
		if len(rnames) > 0 {
			sb.WriteString(strings.Join(rnames, ", ") + " = ")
		}
		fmt.Fprintf(&sb, "%s(%s)\n\t\treturn nil\n\t}()\n", callee, strings.Join(args, ", "))
		ct := x.contract
		allowPanic := ct != nil && (ct.MayPanic || ct.PanicsIff != nil)
		if !allowPanic {
			sb.WriteString("\tif panicked != nil {\n\t\tt.Fatalf(\"REPLAY-VIOLATION panic: %v\", panicked)\n\t}\n")
		} else {
			sb.WriteString("\tif panicked != nil {\n\t\tfmt.Println(\"panic (allowed by the contract):\", panicked)\n\t\treturn\n\t}\n")
		}
		// quantifier range of the executable postconditions
		sb.WriteString("\tvBound = 8\n")
		for _, p := range params {
			if _, ok := p.val.(SliceV); ok {
				fmt.Fprintf(&sb, "\tif cap(%s)+2 > vBound {\n\t\tvBound = cap(%s) + 2\n\t}\n", p.name, p.name)
			}
		}
		for i, rn := range rnames {
			if kindOfType(sig.Results().At(i).Type()) == "slice" {
				fmt.Fprintf(&sb, "\tif cap(%s)+2 > vBound {\n\t\tvBound = cap(%s) + 2\n\t}\n", rn, rn)
			}
		}
		// postconditions
		tr := &goTranslator{sig: sig, params: params, qual: qual}
		skipped := 0
		if ct != nil {
			for i, e := range ct.Ensures {
				code, kind, ok := tr.expr(e, false)
				if !ok || kind != "bool" {
					skipped++
					fmt.Fprintf(&sb, "\t// post%d not executable: %s\n", i+1, e.String())
					continue
				}
				fmt.Fprintf(&sb, "\tif !(%s) {\n\t\tt.Fatalf(\"REPLAY-VIOLATION post%d is false: %%s\", %q)\n\t}\n", code, i+1, e.String())
			}
		}
		sb.WriteString("\tfmt.Println(\"replay: no violation on these inputs\")\n}\n")
		lastInputs = inputsDesc
		return sb.String(), true, ""
	}
	candidates := []map[string][]byte{nil}
	if x.contract != nil {
		for pn, hexes := range x.contract.Witness {
			for _, hx := range hexes {
				if bs, err := hex.DecodeString(hx); err == nil {
					candidates = append(candidates, map[string][]byte{pn: bs})
				}
			}
		}
	}
	var inputsDesc []string
	testFile := filepath.Join(dir, "replay_test.go")
	for ci, cand := range candidates {
		src, okGen, why := gen(cand)
		if !okGen {
			return false, why
		}
		os.WriteFile(testFile, []byte(src), 0o644)
		inputsDesc = lastInputs
		if ci == len(candidates)-1 {
			break
		}
		os.WriteFile(filepath.Join(dir, "package.txt"), []byte(fn.Pkg.Pkg.Path()+"\n"+x.prog.Tags+"\n"), 0o644)
		if ok, out := runReplayTest(dir); ok {
			os.WriteFile(filepath.Join(dir, "inputs.txt"), []byte(strings.Join(inputsDesc, "\n")+"\n"), 0o644)
			os.WriteFile(filepath.Join(dir, "replay_output.txt"), []byte(out), 0o644)
			m := regexp.MustCompile(`REPLAY-VIOLATION[^\n]*`).FindString(out)
			how := "model input"
			if cand != nil {
				how = "witness search"
			}
			return true, m + " (" + how + ") inputs: " + strings.Join(inputsDesc, "; ")
		}
	}
	os.WriteFile(filepath.Join(dir, "package.txt"), []byte(fn.Pkg.Pkg.Path()+"\n"+x.prog.Tags+"\n"), 0o644)
	os.WriteFile(filepath.Join(dir, "inputs.txt"), []byte(strings.Join(inputsDesc, "\n")+"\n"), 0o644)
	ok, out := runReplayTest(dir)
	os.WriteFile(filepath.Join(dir, "replay_output.txt"), []byte(out), 0o644)
	if ok {
		m := regexp.MustCompile(`REPLAY-VIOLATION[^\n]*`).FindString(out)
		return true, m + " inputs: " + strings.Join(inputsDesc, "; ")
	}
	if strings.Contains(out, "replay: no violation") {
		return false, "model-inputs-do-not-violate-the-contract-on-the-real-code"
	}
	return false, "replay-test-did-not-run: " + trunc(strings.ReplaceAll(out, "\n", " "), 200)
}

func runReplayTest(dir string) (bool, string) {
	data, err := os.ReadFile(filepath.Join(dir, "package.txt"))
	if err != nil {
		return false, err.Error()
	}
	lines := strings.Split(strings.TrimSpace(string(data)), "\n")
	pkg := lines[0]
	ts := &tierSpec{name: "default"}
	if len(lines) > 1 && strings.Contains(lines[1], "purego") {
		ts.tags = "purego"
	}
	_, out := goTestOverlay(pkg, filepath.Join(dir, "replay_test.go"), "zz_verif_replay_test.go", "^TestVerifReplay$", ts, nil, 60)
	return strings.Contains(out, "REPLAY-VIOLATION"), out
}

const replayHelpers = `func vAt[T ~uint8 | ~uint16 | ~uint32 | ~uint64 | ~int | ~int8 | ~int16 | ~int32 | ~int64 | ~uint](s []T, i int) int {
	if i < 0 || i >= len(s) {
		return -1 << 40
	}
	return int(s[i])
}

func vSub[T any](s []T, lo, hi int) []T {
	if lo < 0 || hi < lo || hi > cap(s) {
		return nil
	}
	return s[lo:hi:cap(s)]
}

func vSame[T any](a, b []T) bool {
	if len(a) != len(b) || cap(a) != cap(b) {
		return false
	}
	if cap(a) == 0 {
		return true
	}
	return &a[:1][0] == &b[:1][0]
}

func vMod(a, b int) int {
	if b == 0 {
		return 0
	}
	return ((a % b) + b) % b
}

func vDiv(a, b int) int {
	if b == 0 {
		return 0
	}
	return (a - vMod(a, b)) / b
}

var _ = fmt.Sprint
var vBound = 8

`

// goTranslator turns contract expressions into Go source (best effort).
type goTranslator struct {
	sig    *types.Signature
	params []replayParam
	qual   types.Qualifier
	bound  map[string]bool
}

func (g *goTranslator) typeOfName(n string, old bool) (string, types.Type, bool) {
	for _, p := range g.params {
		if p.name == n {
			if old {
				return "old_" + n, p.typ, true
			}
			return n, p.typ, true
		}
	}
	rn := resultNames(g.sig)
	for i, ns := range rn {
		for _, x := range ns {
			if x == n {
				return fmt.Sprintf("r%d", i), g.sig.Results().At(i).Type(), true
			}
		}
	}
	return "", nil, false
}

func kindOfType(t types.Type) string {
	switch u := t.Underlying().(type) {
	case *types.Basic:
		if u.Info()&types.IsInteger != 0 {
			return "int"
		}
		if u.Info()&types.IsBoolean != 0 {
			return "bool"
		}
	case *types.Slice:
		if b, ok := u.Elem().Underlying().(*types.Basic); ok && b.Info()&types.IsInteger != 0 {
			return "slice"
		}
	case *types.Interface:
		return "iface"
	case *types.Pointer:
		return "ptr"
	}
	return "other"
}

// expr returns (code, kind, ok); kind is int, bool, slice, iface, ptr, nil.
func (g *goTranslator) expr(e *Expr, old bool) (string, string, bool) {
	switch e.Kind {
	case "int":
		return e.Val, "int", true
	case "bool":
		return e.Val, "bool", true
	case "nil":
		return "nil", "nil", true
	case "ident":
		if g.bound[e.Name] {
			return e.Name, "int", true
		}
		code, t, ok := g.typeOfName(e.Name, old)
		if !ok {
			return "", "", false
		}
		k := kindOfType(t)
		if k == "int" {
			return "int(" + code + ")", "int", true
		}
		return code, k, k != "other"
	case "old":
		return g.expr(e.Args[0], true)
	case "unary":
		c, k, ok := g.expr(e.Args[0], old)
		if !ok {
			return "", "", false
		}
		switch e.Name {
		case "!":
			return "!(" + c + ")", "bool", k == "bool"
		case "-":
			return "-(" + c + ")", "int", k == "int"
		}
		return "", "", false
	case "binary":
		l, lk, ok1 := g.expr(e.Args[0], old)
		r, rk, ok2 := g.expr(e.Args[1], old)
		if !ok1 || !ok2 {
			return "", "", false
		}
		switch e.Name {
		case "&&", "||":
			return "(" + l + " " + e.Name + " " + r + ")", "bool", lk == "bool" && rk == "bool"
		case "==>":
			return "(!(" + l + ") || (" + r + "))", "bool", lk == "bool" && rk == "bool"
		case "<==>":
			return "((" + l + ") == (" + r + "))", "bool", lk == "bool" && rk == "bool"
		case "==", "!=":
			if lk == "slice" && rk == "nil" {
				return "(" + l + " " + e.Name + " nil)", "bool", true
			}
			if (lk == "iface" || lk == "ptr") && rk == "nil" {
				return "(" + l + " " + e.Name + " nil)", "bool", true
			}
			if lk == rk && (lk == "int" || lk == "bool") {
				return "(" + l + " " + e.Name + " " + r + ")", "bool", true
			}
			return "", "", false
		case "<", "<=", ">", ">=":
			return "(" + l + " " + e.Name + " " + r + ")", "bool", lk == "int" && rk == "int"
		case "+", "-", "*":
			return "(" + l + " " + e.Name + " " + r + ")", "int", lk == "int" && rk == "int"
		case "/":
			return "vDiv(" + l + ", " + r + ")", "int", lk == "int" && rk == "int"
		case "%":
			return "vMod(" + l + ", " + r + ")", "int", lk == "int" && rk == "int"
		}
		return "", "", false
	case "index":
		b, bk, ok1 := g.expr(e.Args[0], old)
		i, ik, ok2 := g.expr(e.Args[1], old)
		if !ok1 || !ok2 || bk != "slice" || ik != "int" {
			return "", "", false
		}
		return "vAt(" + b + ", " + i + ")", "int", true
	case "slice":
		b, bk, ok := g.expr(e.Args[0], old)
		if !ok || bk != "slice" {
			return "", "", false
		}
		lo, hi := "0", "len("+b+")"
		if e.Args[1] != nil {
			c, k, ok := g.expr(e.Args[1], old)
			if !ok || k != "int" {
				return "", "", false
			}
			lo = c
		}
		if e.Args[2] != nil {
			c, k, ok := g.expr(e.Args[2], old)
			if !ok || k != "int" {
				return "", "", false
			}
			hi = c
		}
		return "vSub(" + b + ", " + lo + ", " + hi + ")", "slice", true
	case "call":
		switch e.Name {
		case "len", "cap":
			c, k, ok := g.expr(e.Args[0], old)
			if !ok || k != "slice" {
				return "", "", false
			}
			return e.Name + "(" + c + ")", "int", true
		case "int", "uint", "byte", "uint8", "uint16", "uint32", "uint64", "int64", "int32":
			return g.expr(e.Args[0], old)
		case "sameslice":
			a, ak, ok1 := g.expr(e.Args[0], old)
			b, bk, ok2 := g.expr(e.Args[1], old)
			if !ok1 || !ok2 || ak != "slice" || bk != "slice" {
				return "", "", false
			}
			return "vSame(" + a + ", " + b + ")", "bool", true
		case "fresh", "disjoint", "disjointcap", "onlychanged":
			return "true", "bool", true // not checked by the replay
		case "min", "max":
			a, ak, ok1 := g.expr(e.Args[0], old)
			b, bk, ok2 := g.expr(e.Args[1], old)
			if !ok1 || !ok2 || ak != "int" || bk != "int" {
				return "", "", false
			}
			return e.Name + "(" + a + ", " + b + ")", "int", true
		}
		return "", "", false
	case "forall", "exists":
		if g.bound == nil {
			g.bound = map[string]bool{}
		}
		for _, v := range e.Vars {
			g.bound[v] = true
		}
		body, k, ok := g.expr(e.Args[0], old)
		for _, v := range e.Vars {
			delete(g.bound, v)
		}
		if !ok || k != "bool" {
			return "", "", false
		}
		// bounded enumeration: all indices that can matter for the slices in play
		var sb strings.Builder
		want := "false"
		if e.Kind == "exists" {
			want = "true"
		}
		sb.WriteString("func() bool {\n")
		for _, v := range e.Vars {
			fmt.Fprintf(&sb, "\t\tfor %s := -2; %s <= vBound; %s++ {\n", v, v, v)
		}
		if e.Kind == "forall" {
			fmt.Fprintf(&sb, "\t\t\tif !(%s) {\n\t\t\t\treturn false\n\t\t\t}\n", body)
		} else {
			fmt.Fprintf(&sb, "\t\t\tif %s {\n\t\t\t\treturn true\n\t\t\t}\n", body)
		}
		for range e.Vars {
			sb.WriteString("\t\t}\n")
		}
		fmt.Fprintf(&sb, "\t\treturn !%s\n\t}()", want)
		return sb.String(), "bool", true
	}
	return "", "", false
}
