package main

// Contract files: comment-only Go files (//go:build verif) in /repo/<pkg>/zz_contracts_verif.go and
// *.contracts files in /verif/stdlib. Only lines starting with "//@" are read.

import (
	"fmt"
	"os"
	"path/filepath"
	"strconv"
	"strings"
)

type Expr struct {
	Kind string // ident int bool nil unary binary call index slice field old forall exists paren
	Name string // identifier, operator, field or function name
	Args []*Expr
	Vars []string // quantified variables
	Val  string   // literal text
	Src  string
}

type LoopSpec struct {
	Lets       []LetSpec
	Invariants []*Expr
	Decreases  *Expr
	Unroll     int
	Modifies   []*Expr
}

type AssertSpec struct {
	Callee string
	Ord    int
	E      *Expr
	After  bool   // placed after the call (default: before)
	Lemma  string // apply: instantiate this (separately proved) lemma with Args and assume it
	Args   []*Expr
	Bind   string // bind: name given to the value of E at this point
}

type Contract struct {
	Key          string // canonical function key
	Pkg          string
	Rel          string
	File         string
	Line         int
	Properties   []string
	Cfgs         []string
	Mode         string
	Trusted      bool
	Inline       bool
	Pure         bool
	NoOverflow   bool
	CellRanges   bool // give the solver the byte range of heap cells that come from instantiated quantified clauses
	HeapNonNil   bool // sweep contracts: pointers and interfaces loaded from memory are assumed non-nil
	Requires     []*Expr
	Ensures      []*Expr
	Modifies     []*Expr
	ModHeaps     []string // whole component heaps (weak frame, used for assembly routines)
	FreshOrNil   map[string]bool
	CoverReturns bool     // "coverreturns": every return statement must be reachable under the assumed contracts
	ModFresh     []string // component heaps, but only objects allocated since the verified function was entered
	ModAll       bool
	PanicsIff    *Expr
	Decreases    *Expr
	MayPanic     bool
	Loops        map[int]*LoopSpec
	Asserts      []AssertSpec
	Lets         []LetSpec
	GhostSets    []GhostSet
	Nullable     map[string]bool
	AliasOK      map[string]bool
	Fresh        []string            // results declared fresh
	Witness      map[string][]string // parameter -> candidate inputs (hex) tried by the replay when the model does not reproduce
	ParamNames   string              // names for the parameters of a contract attached to a function type
	FnSpecs      map[string]string   // function-typed parameter -> contract key used for calls through it
	InlineCalls  map[string]bool
	HavocCalls   map[string]bool
	Uses         []string // lemmas
	Unroll       int
	Replay       string
	Configs      []ConfigSpec
	QuickCfg     map[string][]int64
	Paths        int
	Timeout      int
}

type ConfigSpec struct {
	Name   string
	Values []int64
	Alias  *Expr // "config n in 1,2 = expr": n is the value of expr at entry (a case split on it)
}

type LetSpec struct {
	Name string
	E    *Expr
}

type GhostSet struct {
	Heap string
	Obj  *Expr
	E    *Expr
}

type PredDef struct {
	Name   string
	Params []string
	Body   *Expr
}

type LemmaDef struct {
	Name       string
	Pkg        string
	Properties []string
	Vars       []string
	Body       *Expr
	Induct     string
	Strong     bool
	Uses       []string
	Raw        string // raw SMT-LIB goal (alternative to Body)
	Timeout    int
}

type GuardDef struct {
	Pkg        string
	Kind       string // guarded | immutable
	Type       string
	Field      []string
	By         string
	After      []string
	Properties []string
}

type ContractDB struct {
	Funcs   map[string]*Contract
	Preds   map[string]*PredDef
	Lemmas  []*LemmaDef
	Guards  []*GuardDef
	Ghosts  map[string]string // ghost heap name -> element sort
	GhostOf map[string]string // ghost heap name -> owning struct type (ghost field)
	SpecFns map[string]*SpecFn
	Prelude []string // raw SMT-LIB prelude chunks (in order)
	Order   []string
}

type SpecFn struct {
	Name  string
	Args  []string
	Ret   string
	Bytes bool // the result is an array of byte values (the prelude has the range axiom)
	U32   bool // ... of 32-bit words (the prelude has the range axiom)
}

func NewContractDB() *ContractDB {
	return &ContractDB{Funcs: map[string]*Contract{}, Preds: map[string]*PredDef{}, Ghosts: map[string]string{}, GhostOf: map[string]string{}, SpecFns: map[string]*SpecFn{}}
}

// LoadContractFile parses one file; pkgPath is the import path the relative names refer to
// ("" for stdlib files, whose blocks give full keys).
func (db *ContractDB) LoadContractFile(path, pkgPath string) error {
	data, err := os.ReadFile(path)
	if err != nil {
		return err
	}
	var cur *Contract
	var lines []struct {
		text string
		n    int
	}
	for i, raw := range strings.Split(string(data), "\n") {
		t := strings.TrimSpace(raw)
		if !strings.HasPrefix(t, "//@") {
			continue
		}
		body := t[3:]
		if strings.HasPrefix(body, "+") {
			if len(lines) == 0 {
				return fmt.Errorf("%s:%d: continuation without a clause", path, i+1)
			}
			lines[len(lines)-1].text += " " + strings.TrimSpace(body[1:])
			continue
		}
		// strip trailing comment
		if k := strings.Index(body, " // "); k >= 0 {
			body = body[:k]
		}
		body = strings.TrimSpace(body)
		if body == "" {
			continue
		}
		lines = append(lines, struct {
			text string
			n    int
		}{body, i + 1})
	}
	for _, ln := range lines {
		fail := func(format string, a ...interface{}) error {
			return fmt.Errorf("%s:%d: %s", path, ln.n, fmt.Sprintf(format, a...))
		}
		word, rest := splitWord(ln.text)
		pe := func(s string) (*Expr, error) {
			e, err := ParseExpr(s)
			if err != nil {
				return nil, fail("%v in %q", err, s)
			}
			return e, nil
		}
		switch word {
		case "func":
			name, tags := splitFuncHeader(rest)
			key := name
			if pkgPath != "" && !strings.Contains(name, "/") && !strings.HasPrefix(name, "std:") {
				key = pkgPath + "." + name
			}
			key = strings.TrimPrefix(key, "std:")
			c := &Contract{Key: key, Pkg: pkgPath, Rel: name, File: path, Line: ln.n, Loops: map[int]*LoopSpec{},
				Nullable: map[string]bool{}, AliasOK: map[string]bool{}, InlineCalls: map[string]bool{}, HavocCalls: map[string]bool{}, FnSpecs: map[string]string{}}
			toks := strings.Fields(tags)
			for i := 0; i < len(toks); i++ {
				switch toks[i] {
				case "property":
					i++
					if i < len(toks) {
						c.Properties = strings.Split(toks[i], ",")
					}
				case "cfg":
					i++
					if i < len(toks) {
						c.Cfgs = strings.Split(toks[i], ",")
					}
				case "mode":
					i++
					if i < len(toks) {
						c.Mode = toks[i]
					}
				case "trusted":
					c.Trusted = true
				case "inline":
					c.Inline = true
				case "pure":
					c.Pure = true
				case "nooverflow":
					c.NoOverflow = true
				default:
					return fail("unknown tag %q", toks[i])
				}
			}
			if _, dup := db.Funcs[key]; dup {
				return fail("duplicate contract for %s", key)
			}
			db.Funcs[key] = c
			db.Order = append(db.Order, key)
			cur = c
		case "requires", "ensures":
			if cur == nil {
				return fail("clause outside a func block")
			}
			e, err := pe(rest)
			if err != nil {
				return err
			}
			if word == "requires" {
				cur.Requires = append(cur.Requires, e)
			} else {
				cur.Ensures = append(cur.Ensures, e)
			}
		case "modifies":
			if cur == nil {
				return fail("clause outside a func block")
			}
			if strings.TrimSpace(rest) == "nothing" {
				continue
			}
			if strings.TrimSpace(rest) == "everything" {
				cur.ModAll = true
				continue
			}
			for _, part := range splitTop(rest, ',') {
				if strings.HasPrefix(part, "heap ") {
					cur.ModHeaps = append(cur.ModHeaps, strings.TrimSpace(strings.TrimPrefix(part, "heap ")))
					continue
				}
				if strings.HasPrefix(part, "fresh ") {
					cur.ModFresh = append(cur.ModFresh, strings.TrimSpace(strings.TrimPrefix(part, "fresh ")))
					continue
				}
				e, err := pe(part)
				if err != nil {
					return err
				}
				cur.Modifies = append(cur.Modifies, e)
			}
		case "decreases":
			e, err := pe(rest)
			if err != nil {
				return err
			}
			cur.Decreases = e
		case "nooverflow":
			cur.NoOverflow = true
		case "cellranges":
			cur.CellRanges = true
		case "heapnonnil":
			cur.HeapNonNil = true
		case "nopanic":
			// default
		case "maypanic":
			cur.MayPanic = true
		case "panics":
			w2, r2 := splitWord(rest)
			if w2 != "iff" {
				return fail("expected 'panics iff'")
			}
			e, err := pe(r2)
			if err != nil {
				return err
			}
			cur.PanicsIff = e
		case "loop":
			w2, r2 := splitWord(rest)
			n, err := strconv.Atoi(w2)
			if err != nil {
				return fail("loop ordinal: %v", err)
			}
			ls := cur.Loops[n]
			if ls == nil {
				ls = &LoopSpec{}
				cur.Loops[n] = ls
			}
			w3, r3 := splitWord(r2)
			switch w3 {
			case "invariant":
				e, err := pe(r3)
				if err != nil {
					return err
				}
				ls.Invariants = append(ls.Invariants, e)
			case "decreases":
				e, err := pe(r3)
				if err != nil {
					return err
				}
				ls.Decreases = e
			case "let":
				name, r, ok := strings.Cut(r3, ":=")
				if !ok {
					return fail("loop N let name := expr")
				}
				e, err := pe(r)
				if err != nil {
					return err
				}
				ls.Lets = append(ls.Lets, LetSpec{strings.TrimSpace(name), e})
			case "unroll":
				k, err := strconv.Atoi(strings.TrimSpace(r3))
				if err != nil {
					return fail("unroll count: %v", err)
				}
				ls.Unroll = k
			case "modifies":
				for _, part := range splitTop(r3, ',') {
					e, err := pe(part)
					if err != nil {
						return err
					}
					ls.Modifies = append(ls.Modifies, e)
				}
			default:
				return fail("unknown loop clause %q", w3)
			}
		case "assert", "apply", "bind":
			// assert before|after call f#k: E        apply before|after call f#k: lemma(args)
			// bind before|after call f#k: name := E  (names a value as it is at that point)
			r := strings.TrimSpace(rest)
			if strings.HasPrefix(r, "at entry") {
				r = "before call @entry" + strings.TrimPrefix(r, "at entry")
			}
			if strings.HasPrefix(r, "at return") {
				r = "before call @return" + strings.TrimPrefix(r, "at return")
			}
			after := strings.HasPrefix(r, "after call ")
			r = strings.TrimPrefix(strings.TrimPrefix(r, "before call "), "after call ")
			k := strings.Index(r, ":")
			if k < 0 {
				return fail("assert before call f#k: E")
			}
			callee, ordS, _ := strings.Cut(strings.TrimSpace(r[:k]), "#")
			ord := 1
			if ordS != "" {
				ord, _ = strconv.Atoi(ordS)
			}
			body := r[k+1:]
			bindName := ""
			if word == "bind" {
				n, b2, ok := strings.Cut(body, ":=")
				if !ok {
					return fail("bind before|after call f#k: name := E")
				}
				bindName, body = strings.TrimSpace(n), b2
			}
			e, err := pe(body)
			if err != nil {
				return err
			}
			as := AssertSpec{Callee: callee, Ord: ord, E: e, After: after, Bind: bindName}
			if word == "apply" {
				if e.Kind != "call" {
					return fail("apply ...: lemma(args)")
				}
				as.Lemma, as.Args = e.Name, e.Args
			}
			cur.Asserts = append(cur.Asserts, as)
		case "let":
			name, r, ok := strings.Cut(rest, ":=")
			if !ok {
				return fail("let name := expr")
			}
			e, err := pe(r)
			if err != nil {
				return err
			}
			cur.Lets = append(cur.Lets, LetSpec{strings.TrimSpace(name), e})
		case "ghostset":
			// ghostset heap[objexpr] := expr
			lhs, r, ok := strings.Cut(rest, ":=")
			if !ok {
				return fail("ghostset H[obj] := expr")
			}
			lhs = strings.TrimSpace(lhs)
			k := strings.Index(lhs, "[")
			if k < 0 || !strings.HasSuffix(lhs, "]") {
				return fail("ghostset H[obj] := expr")
			}
			oe, err := pe(lhs[k+1 : len(lhs)-1])
			if err != nil {
				return err
			}
			e, err := pe(r)
			if err != nil {
				return err
			}
			cur.GhostSets = append(cur.GhostSets, GhostSet{lhs[:k], oe, e})
		case "witness":
			w := strings.Fields(rest)
			if len(w) < 2 {
				return fail("witness param hex...")
			}
			if cur.Witness == nil {
				cur.Witness = map[string][]string{}
			}
			cur.Witness[w[0]] = append(cur.Witness[w[0]], w[1:]...)
		case "params":
			cur.ParamNames = rest
		case "fnspec":
			// fnspec param: contractKey
			name, key, ok := strings.Cut(rest, ":")
			if !ok {
				return fail("fnspec param: contract")
			}
			cur.FnSpecs[strings.TrimSpace(name)] = strings.TrimSpace(key)
		case "nullable":
			for _, n := range strings.Fields(strings.ReplaceAll(rest, ",", " ")) {
				cur.Nullable[n] = true
			}
		case "aliasok":
			for _, n := range strings.Fields(strings.ReplaceAll(rest, ",", " ")) {
				cur.AliasOK[n] = true
			}
		case "fresh":
			for _, n := range strings.Fields(strings.ReplaceAll(rest, ",", " ")) {
				cur.Fresh = append(cur.Fresh, n)
			}
		case "coverreturns":
			cur.CoverReturns = true
		case "freshornil":
			// the result is nil or newly allocated (callers explore both)
			for _, n := range strings.Fields(strings.ReplaceAll(rest, ",", " ")) {
				cur.Fresh = append(cur.Fresh, n)
				if cur.FreshOrNil == nil {
					cur.FreshOrNil = map[string]bool{}
				}
				cur.FreshOrNil[n] = true
			}
		case "inlinecall":
			for _, n := range strings.Fields(strings.ReplaceAll(rest, ",", " ")) {
				cur.InlineCalls[n] = true
			}
		case "havoccall":
			for _, n := range strings.Fields(strings.ReplaceAll(rest, ",", " ")) {
				cur.HavocCalls[n] = true
			}
		case "use":
			for _, n := range strings.Fields(strings.ReplaceAll(strings.TrimPrefix(strings.TrimSpace(rest), "lemma"), ",", " ")) {
				cur.Uses = append(cur.Uses, n)
			}
		case "unroll":
			k, err := strconv.Atoi(strings.TrimSpace(rest))
			if err != nil {
				return fail("unroll: %v", err)
			}
			cur.Unroll = k
		case "paths":
			k, err := strconv.Atoi(strings.TrimSpace(rest))
			if err != nil {
				return fail("paths: %v", err)
			}
			cur.Paths = k
		case "timeout":
			k, err := strconv.Atoi(strings.TrimSpace(rest))
			if err != nil {
				return fail("timeout: %v", err)
			}
			cur.Timeout = k
		case "config":
			// config name in a,b,c | config name in lo..hi
			name, r, ok := strings.Cut(rest, " in ")
			if !ok {
				return fail("config name in values")
			}
			cs := ConfigSpec{Name: strings.TrimSpace(name)}
			r = strings.TrimSpace(r)
			if main, al, ok := strings.Cut(r, " = "); ok {
				r = strings.TrimSpace(main)
				ae, err := pe(al)
				if err != nil {
					return err
				}
				cs.Alias = ae
			}
			if main, q, ok := strings.Cut(r, " quick "); ok {
				r = strings.TrimSpace(main)
				if cur.QuickCfg == nil {
					cur.QuickCfg = map[string][]int64{}
				}
				for _, s := range strings.Split(q, ",") {
					v, err := strconv.ParseInt(strings.TrimSpace(s), 0, 64)
					if err != nil {
						return fail("config quick value: %v", err)
					}
					cur.QuickCfg[cs.Name] = append(cur.QuickCfg[cs.Name], v)
				}
			}
			if lo, hi, ok := strings.Cut(r, ".."); ok {
				l, _ := strconv.ParseInt(strings.TrimSpace(lo), 0, 64)
				h, _ := strconv.ParseInt(strings.TrimSpace(hi), 0, 64)
				for v := l; v <= h; v++ {
					cs.Values = append(cs.Values, v)
				}
			} else {
				for _, s := range strings.Split(r, ",") {
					v, err := strconv.ParseInt(strings.TrimSpace(s), 0, 64)
					if err != nil {
						return fail("config value: %v", err)
					}
					cs.Values = append(cs.Values, v)
				}
			}
			cur.Configs = append(cur.Configs, cs)
		case "replay:":
			cur.Replay = strings.TrimSpace(rest)
		case "pred":
			// pred name(a, b) := expr
			lhs, r, ok := strings.Cut(rest, ":=")
			if !ok {
				return fail("pred name(params) := expr")
			}
			lhs = strings.TrimSpace(lhs)
			k := strings.Index(lhs, "(")
			if k < 0 {
				return fail("pred name(params) := expr")
			}
			p := &PredDef{Name: lhs[:k]}
			for _, a := range strings.Split(strings.TrimSuffix(lhs[k+1:], ")"), ",") {
				if a = strings.TrimSpace(a); a != "" {
					p.Params = append(p.Params, a)
				}
			}
			e, err := pe(r)
			if err != nil {
				return err
			}
			p.Body = e
			db.Preds[p.Name] = p
			cur = nil
		case "ghost":
			// ghost heapname : sort
			name, srt, ok := strings.Cut(rest, ":")
			if !ok {
				return fail("ghost name : sort")
			}
			if sr, owner, ok := strings.Cut(srt, " of "); ok {
				srt = sr
				db.GhostOf[strings.TrimSpace(name)] = strings.TrimSpace(owner)
			}
			db.Ghosts[strings.TrimSpace(name)] = strings.TrimSpace(srt)
			cur = nil
		case "specfn":
			// specfn name(Sort, Sort) Sort
			k := strings.Index(rest, "(")
			k2 := -1
			for i, d := k, 0; k >= 0 && i < len(rest); i++ {
				if rest[i] == '(' {
					d++
				} else if rest[i] == ')' {
					d--
					if d == 0 {
						k2 = i
						break
					}
				}
			}
			if k < 0 || k2 < k {
				return fail("specfn name(sorts) sort")
			}
			sf := &SpecFn{Name: strings.TrimSpace(rest[:k]), Ret: strings.TrimSpace(rest[k2+1:])}
			if strings.HasSuffix(sf.Ret, " bytes") {
				sf.Ret = strings.TrimSpace(strings.TrimSuffix(sf.Ret, " bytes"))
				sf.Bytes = true
			}
			if strings.HasSuffix(sf.Ret, " u32") {
				sf.Ret = strings.TrimSpace(strings.TrimSuffix(sf.Ret, " u32"))
				sf.U32 = true
			}
			for _, a := range splitTop(rest[k+1:k2], ',') {
				if a = strings.TrimSpace(a); a != "" {
					sf.Args = append(sf.Args, a)
				}
			}
			db.SpecFns[sf.Name] = sf
			cur = nil
		case "smt":
			db.Prelude = append(db.Prelude, rest)
			cur = nil
		case "lemma":
			// lemma name [property Cxx] [vars a,b] [induct k] [use l1,l2] : expr
			hdr, body, ok := strings.Cut(rest, " : ")
			if !ok {
				return fail("lemma name ... : expr")
			}
			toks := strings.Fields(hdr)
			lm := &LemmaDef{Name: toks[0], Pkg: pkgPath}
			for i := 1; i < len(toks); i++ {
				switch toks[i] {
				case "property":
					i++
					lm.Properties = strings.Split(toks[i], ",")
				case "vars":
					i++
					lm.Vars = strings.Split(toks[i], ",")
				case "induct":
					i++
					lm.Induct = toks[i]
				case "strong":
					lm.Strong = true
				case "use":
					i++
					lm.Uses = strings.Split(toks[i], ",")
				case "timeout":
					i++
					lm.Timeout, _ = strconv.Atoi(toks[i])
				default:
					return fail("unknown lemma tag %q", toks[i])
				}
			}
			body = strings.TrimSpace(body)
			if strings.HasPrefix(body, "smt ") {
				lm.Raw = strings.TrimSpace(body[4:])
			} else {
				e, err := pe(body)
				if err != nil {
					return err
				}
				lm.Body = e
			}
			db.Lemmas = append(db.Lemmas, lm)
			cur = nil
		case "guarded", "immutable":
			g := &GuardDef{Pkg: pkgPath, Kind: word}
			toks := strings.Fields(rest)
			for i := 0; i < len(toks); i++ {
				switch toks[i] {
				case "by":
					i++
					g.By = toks[i]
				case "after":
					i++
					g.After = strings.Split(toks[i], ",")
				case "property":
					i++
					g.Properties = strings.Split(toks[i], ",")
				default:
					tn, fl, _ := strings.Cut(toks[i], ".")
					g.Type = tn
					g.Field = strings.Split(fl, ",")
				}
			}
			db.Guards = append(db.Guards, g)
			cur = nil
		default:
			return fail("unknown clause %q", word)
		}
	}
	return nil
}

func splitWord(s string) (string, string) {
	s = strings.TrimSpace(s)
	k := strings.IndexAny(s, " \t")
	if k < 0 {
		return s, ""
	}
	return s[:k], strings.TrimSpace(s[k+1:])
}

// splitFuncHeader separates "name" (which may contain parentheses and spaces inside them,
// e.g. "(*digest).Write") from the tag list.
func splitFuncHeader(s string) (string, string) {
	s = strings.TrimSpace(s)
	depth := 0
	for i, c := range s {
		switch c {
		case '(', '[':
			depth++
		case ')', ']':
			depth--
		case ' ', '\t':
			if depth == 0 {
				return s[:i], strings.TrimSpace(s[i+1:])
			}
		}
	}
	return s, ""
}

func splitTop(s string, sep rune) []string {
	var out []string
	depth := 0
	last := 0
	for i, c := range s {
		switch c {
		case '(', '[', '{':
			depth++
		case ')', ']', '}':
			depth--
		default:
			if c == sep && depth == 0 {
				out = append(out, strings.TrimSpace(s[last:i]))
				last = i + 1
			}
		}
	}
	if strings.TrimSpace(s[last:]) != "" {
		out = append(out, strings.TrimSpace(s[last:]))
	}
	return out
}

// LoadAll reads /repo/**/zz_contracts_verif.go and /verif/stdlib/*.contracts, /verif/specs/*.smt2.
func LoadAllContracts(repo, verif string) (*ContractDB, error) {
	db := NewContractDB()
	std, _ := filepath.Glob(filepath.Join(verif, "stdlib", "*.contracts"))
	for _, f := range std {
		if err := db.LoadContractFile(f, ""); err != nil {
			return nil, err
		}
	}
	var files []string
	filepath.Walk(repo, func(p string, info os.FileInfo, err error) error {
		if err != nil {
			return nil
		}
		if info.IsDir() && (info.Name() == ".git" || info.Name() == "docs") {
			return filepath.SkipDir
		}
		if !info.IsDir() && info.Name() == "zz_contracts_verif.go" {
			files = append(files, p)
		}
		return nil
	})
	for _, f := range files {
		rel, _ := filepath.Rel(repo, filepath.Dir(f))
		pkg := modPath
		if rel != "." {
			pkg = modPath + "/" + filepath.ToSlash(rel)
		}
		if err := db.LoadContractFile(f, pkg); err != nil {
			return nil, err
		}
	}
	return db, nil
}

// ---------- expression parser

type lexer struct {
	toks []string
	pos  int
}

func lex(s string) ([]string, error) {
	var toks []string
	i := 0
	for i < len(s) {
		c := s[i]
		switch {
		case c == ' ' || c == '\t':
			i++
		case c >= '0' && c <= '9':
			j := i
			for j < len(s) && (s[j] >= '0' && s[j] <= '9' || s[j] >= 'a' && s[j] <= 'f' || s[j] >= 'A' && s[j] <= 'F' || s[j] == 'x' || s[j] == 'X' || s[j] == '_') {
				j++
			}
			toks = append(toks, s[i:j])
			i = j
		case c == '_' || c >= 'a' && c <= 'z' || c >= 'A' && c <= 'Z':
			j := i
			for j < len(s) && (s[j] == '_' || s[j] >= 'a' && s[j] <= 'z' || s[j] >= 'A' && s[j] <= 'Z' || s[j] >= '0' && s[j] <= '9') {
				j++
			}
			toks = append(toks, s[i:j])
			i = j
		default:
			for _, op := range []string{"<==>", "==>", "::", "..", "<<", ">>", "&&", "||", "==", "!=", "<=", ">=", "&^"} {
				if strings.HasPrefix(s[i:], op) {
					toks = append(toks, op)
					i += len(op)
					goto next
				}
			}
			if strings.ContainsRune("+-*/%<>!()[],.:&|^", rune(c)) {
				toks = append(toks, string(c))
				i++
			} else {
				return nil, fmt.Errorf("unexpected character %q", c)
			}
		next:
		}
	}
	return toks, nil
}

func ParseExpr(s string) (*Expr, error) {
	toks, err := lex(s)
	if err != nil {
		return nil, err
	}
	p := &lexer{toks: toks}
	e, err := p.parseImpl()
	if err != nil {
		return nil, err
	}
	if p.pos != len(p.toks) {
		return nil, fmt.Errorf("unexpected %q", p.toks[p.pos])
	}
	e.Src = strings.TrimSpace(s)
	return e, nil
}

func (p *lexer) peek() string {
	if p.pos < len(p.toks) {
		return p.toks[p.pos]
	}
	return ""
}
func (p *lexer) next() string { t := p.peek(); p.pos++; return t }
func (p *lexer) accept(t string) bool {
	if p.peek() == t {
		p.pos++
		return true
	}
	return false
}
func (p *lexer) expect(t string) error {
	if !p.accept(t) {
		return fmt.Errorf("expected %q, found %q", t, p.peek())
	}
	return nil
}

func (p *lexer) parseImpl() (*Expr, error) {
	if p.peek() == "forall" || p.peek() == "exists" {
		return p.parseQuant()
	}
	l, err := p.parseOr()
	if err != nil {
		return nil, err
	}
	if p.accept("==>") {
		r, err := p.parseImpl()
		if err != nil {
			return nil, err
		}
		return &Expr{Kind: "binary", Name: "==>", Args: []*Expr{l, r}}, nil
	}
	if p.accept("<==>") {
		r, err := p.parseImpl()
		if err != nil {
			return nil, err
		}
		return &Expr{Kind: "binary", Name: "<==>", Args: []*Expr{l, r}}, nil
	}
	return l, nil
}

func (p *lexer) parseQuant() (*Expr, error) {
	q := p.next()
	var vars []string
	for {
		v := p.next()
		vars = append(vars, v)
		if p.accept(",") {
			continue
		}
		break
	}
	if err := p.expect("::"); err != nil {
		return nil, err
	}
	body, err := p.parseImpl()
	if err != nil {
		return nil, err
	}
	return &Expr{Kind: q, Vars: vars, Args: []*Expr{body}}, nil
}

func (p *lexer) parseBin(ops []string, sub func() (*Expr, error)) (*Expr, error) {
	l, err := sub()
	if err != nil {
		return nil, err
	}
	for {
		found := false
		for _, op := range ops {
			if p.peek() == op {
				p.pos++
				var r *Expr
				if (op == "&&" || op == "||") && (p.peek() == "forall" || p.peek() == "exists") {
					r, err = p.parseQuant()
				} else {
					r, err = sub()
				}
				if err != nil {
					return nil, err
				}
				l = &Expr{Kind: "binary", Name: op, Args: []*Expr{l, r}}
				found = true
				break
			}
		}
		if !found {
			return l, nil
		}
	}
}

func (p *lexer) parseOr() (*Expr, error)  { return p.parseBin([]string{"||"}, p.parseAnd) }
func (p *lexer) parseAnd() (*Expr, error) { return p.parseBin([]string{"&&"}, p.parseCmp) }
func (p *lexer) parseCmp() (*Expr, error) {
	return p.parseBin([]string{"==", "!=", "<=", ">=", "<", ">"}, p.parseAddE)
}
func (p *lexer) parseAddE() (*Expr, error) {
	return p.parseBin([]string{"+", "-", "|", "^"}, p.parseMulE)
}
func (p *lexer) parseMulE() (*Expr, error) {
	return p.parseBin([]string{"*", "/", "%", "<<", ">>", "&^", "&"}, p.parseUnary)
}

func (p *lexer) parseUnary() (*Expr, error) {
	if p.accept("!") {
		e, err := p.parseUnary()
		if err != nil {
			return nil, err
		}
		return &Expr{Kind: "unary", Name: "!", Args: []*Expr{e}}, nil
	}
	if p.accept("-") {
		e, err := p.parseUnary()
		if err != nil {
			return nil, err
		}
		return &Expr{Kind: "unary", Name: "-", Args: []*Expr{e}}, nil
	}
	if p.accept("*") {
		e, err := p.parseUnary()
		if err != nil {
			return nil, err
		}
		return &Expr{Kind: "unary", Name: "*", Args: []*Expr{e}}, nil
	}
	if p.accept("&") {
		e, err := p.parseUnary()
		if err != nil {
			return nil, err
		}
		return &Expr{Kind: "unary", Name: "&", Args: []*Expr{e}}, nil
	}
	return p.parsePostfix()
}

func (p *lexer) parsePostfix() (*Expr, error) {
	e, err := p.parsePrimary()
	if err != nil {
		return nil, err
	}
	for {
		switch {
		case p.accept("."):
			f := p.next()
			e = &Expr{Kind: "field", Name: f, Args: []*Expr{e}}
		case p.accept("["):
			var lo, hi *Expr
			if p.peek() != ":" && p.peek() != ".." {
				lo, err = p.parseImpl()
				if err != nil {
					return nil, err
				}
			}
			if p.accept(":") || p.accept("..") {
				if p.peek() != "]" {
					hi, err = p.parseImpl()
					if err != nil {
						return nil, err
					}
				}
				if err := p.expect("]"); err != nil {
					return nil, err
				}
				e = &Expr{Kind: "slice", Args: []*Expr{e, lo, hi}}
			} else {
				if err := p.expect("]"); err != nil {
					return nil, err
				}
				e = &Expr{Kind: "index", Args: []*Expr{e, lo}}
			}
		case p.peek() == "(" && (e.Kind == "ident"):
			p.pos++
			var args []*Expr
			for p.peek() != ")" {
				a, err := p.parseImpl()
				if err != nil {
					return nil, err
				}
				args = append(args, a)
				if !p.accept(",") {
					break
				}
			}
			if err := p.expect(")"); err != nil {
				return nil, err
			}
			if e.Name == "old" && len(args) == 1 {
				e = &Expr{Kind: "old", Args: args}
			} else {
				e = &Expr{Kind: "call", Name: e.Name, Args: args}
			}
		default:
			return e, nil
		}
	}
}

func (p *lexer) parsePrimary() (*Expr, error) {
	t := p.next()
	switch {
	case t == "":
		return nil, fmt.Errorf("unexpected end of expression")
	case t == "(":
		e, err := p.parseImpl()
		if err != nil {
			return nil, err
		}
		if err := p.expect(")"); err != nil {
			return nil, err
		}
		return e, nil
	case t[0] >= '0' && t[0] <= '9':
		return &Expr{Kind: "int", Val: strings.ReplaceAll(t, "_", "")}, nil
	case t == "true" || t == "false":
		return &Expr{Kind: "bool", Val: t}, nil
	case t == "nil":
		return &Expr{Kind: "nil"}, nil
	case t == "forall" || t == "exists":
		p.pos--
		return p.parseQuant()
	case t[0] == '_' || t[0] >= 'a' && t[0] <= 'z' || t[0] >= 'A' && t[0] <= 'Z':
		return &Expr{Kind: "ident", Name: t}, nil
	}
	return nil, fmt.Errorf("unexpected %q", t)
}

func (e *Expr) String() string {
	if e == nil {
		return ""
	}
	if e.Src != "" {
		return e.Src
	}
	switch e.Kind {
	case "ident":
		return e.Name
	case "int", "bool":
		return e.Val
	case "nil":
		return "nil"
	case "unary":
		return e.Name + e.Args[0].String()
	case "binary":
		return "(" + e.Args[0].String() + " " + e.Name + " " + e.Args[1].String() + ")"
	case "field":
		return e.Args[0].String() + "." + e.Name
	case "index":
		return e.Args[0].String() + "[" + e.Args[1].String() + "]"
	case "slice":
		return e.Args[0].String() + "[" + e.Args[1].String() + ":" + e.Args[2].String() + "]"
	case "old":
		return "old(" + e.Args[0].String() + ")"
	case "call":
		var as []string
		for _, a := range e.Args {
			as = append(as, a.String())
		}
		return e.Name + "(" + strings.Join(as, ", ") + ")"
	case "forall", "exists":
		return e.Kind + " " + strings.Join(e.Vars, ", ") + " :: " + e.Args[0].String()
	}
	return "?"
}
