package main

import (
	"fmt"
	"go/token"
	"go/types"
	"math/big"
	"sort"
	"strings"

	"golang.org/x/tools/go/ssa"
)

// ---------- call ordinals (per callee name, in block/instruction order)

func (x *Exec) callNameOf(fn *ssa.Function, in ssa.Instruction) callName {
	m := x.callOrd[fn]
	if m == nil {
		m = map[ssa.Instruction]callName{}
		// ordinals follow source order (position of the call), ties and position-less calls in block order
		type ci struct {
			in  ssa.Instruction
			seq int
		}
		var calls []ci
		seq := 0
		for _, blk := range fn.Blocks {
			for _, i := range blk.Instrs {
				if _, ok := i.(ssa.CallInstruction); ok {
					calls = append(calls, ci{i, seq})
					seq++
				}
			}
		}
		sort.SliceStable(calls, func(a, b int) bool {
			pa, pb := calls[a].in.Pos(), calls[b].in.Pos()
			if pa.IsValid() && pb.IsValid() && pa != pb {
				return pa < pb
			}
			return calls[a].seq < calls[b].seq
		})
		cnt := map[string]int{}
		for _, c := range calls {
			n := calleeShort(c.in.(ssa.CallInstruction).Common())
			cnt[n]++
			m[c.in] = callName{n, cnt[n]}
		}
		x.callOrd[fn] = m
	}
	return m[in]
}

func calleeShort(c *ssa.CallCommon) string {
	if c.IsInvoke() {
		return c.Method.Name()
	}
	switch f := c.Value.(type) {
	case *ssa.Function:
		return f.Name()
	case *ssa.Builtin:
		return f.Name()
	case *ssa.MakeClosure:
		return f.Fn.Name()
	case *ssa.UnOp:
		// a call through a function-typed struct field (opts.newCipher(key)): named by the field,
		// not by the SSA register that happens to hold the loaded function value
		if fa, ok := f.X.(*ssa.FieldAddr); ok {
			if pt, ok := fa.X.Type().Underlying().(*types.Pointer); ok {
				if st, ok := pt.Elem().Underlying().(*types.Struct); ok && fa.Field < st.NumFields() {
					return st.Field(fa.Field).Name()
				}
			}
		}
	}
	return c.Value.Name()
}

// ---------- calls

func (x *Exec) call(st *State, v *ssa.Call) bool {
	fr := st.frameTop()
	c := v.Common()
	var args []Value
	for _, a := range c.Args {
		args = append(args, x.val(st, a))
	}
	cn := x.callNameOf(fr.fn, v)
	// user assertions anchored before this call (arguments are visible as arg0, arg1, ...)
	x.curArgs = args
	x.userAsserts(st, fr, cn, false)
	x.curArgs = nil
	if st.dead {
		return false
	}
	depth := len(st.frames)
	if !x.callInner(st, v, args, cn) || st.dead {
		return false
	}
	if len(st.frames) > depth {
		// inlined: the clauses anchored after the call run when the callee's frame returns
		top := st.frameTop()
		top.afterCN = &cn
		top.callArgs = args
		return true
	}
	x.curCall, x.curArgs = v, args
	x.userAsserts(st, fr, cn, true)
	x.curCall, x.curArgs = nil, nil
	return !st.dead
}

func (x *Exec) callInner(st *State, v *ssa.Call, args []Value, cn callName) bool {
	fr := st.frameTop()
	c := v.Common()
	b := x.b
	if c.IsInvoke() {
		iv, ok := x.val(st, c.Value).(IfaceV)
		if !ok {
			panic(unsupported("invoke on non-interface value"))
		}
		detail := x.detailOr(fr.fn, v.Pos(), "call", cn.name)
		if x.contract != nil && x.contract.HeapNonNil && iv.Typ.Op == "select" {
			x.notes["pointers and interfaces loaded from memory are assumed non-nil (heapnonnil sweep contract)"] = true
			st.assume(b.Ne(iv.Typ, b.Int(0)))
		} else {
			x.check(st, "nil", "invoke "+detail, v, b.Ne(iv.Typ, b.Int(0)), "method call on nil interface")
		}
		if iv.Dyn != nil {
			// statically known dynamic type
			sel := x.prog.Prog.MethodSets.MethodSet(iv.Dyn).Lookup(c.Method.Pkg(), c.Method.Name())
			if sel != nil {
				callee := x.prog.Prog.MethodValue(sel)
				if callee != nil {
					return x.callFunc(st, v, callee, append([]Value{iv.Concrete}, args...), nil, cn)
				}
			}
		}
		// interface method contract
		keys := ifaceKeys(c)
		for _, k := range keys {
			if ct := x.db.Funcs[k]; ct != nil {
				sig := c.Method.Type().(*types.Signature)
				names := []string{"self"}
				for i := 0; i < sig.Params().Len(); i++ {
					names = append(names, sig.Params().At(i).Name())
				}
				x.applyContract(st, ct, sig, names, append([]Value{iv}, args...), v, cn)
				return !st.dead
			}
		}
		x.havocCall(st, v, "iface:"+c.Method.FullName(), args, cn)
		return true
	}
	switch f := c.Value.(type) {
	case *ssa.Builtin:
		fr.env[v] = x.builtin(st, v, f.Name(), args)
		return !st.dead
	case *ssa.Function:
		return x.callFunc(st, v, f, args, nil, cn)
	case *ssa.MakeClosure:
		fv := x.val(st, f).(FuncV)
		return x.callFunc(st, v, fv.Fn, args, fv.Bindings, cn)
	}
	fv, ok := x.val(st, c.Value).(FuncV)
	if ok && fv.Fn != nil {
		return x.callFunc(st, v, fv.Fn, args, fv.Bindings, cn)
	}
	// call through a function-typed parameter or struct field with a contract attached by "fnspec",
	// or through a value of a named function type with a "functype:<pkg>.<Type>" contract
	fnName, fnKey := "", ""
	if p, isParam := c.Value.(*ssa.Parameter); isParam {
		fnName = p.Name()
	} else if u, isLoad := c.Value.(*ssa.UnOp); isLoad && u.Op == token.MUL {
		if fa, isFA := u.X.(*ssa.FieldAddr); isFA {
			if pt, isPtr := fa.X.Type().Underlying().(*types.Pointer); isPtr {
				if sst, _ := structOf(pt.Elem()); sst != nil {
					fnName = sst.Field(fa.Field).Name()
				}
			}
		}
	}
	if fnName != "" && fr.contract != nil {
		fnKey = fr.contract.FnSpecs[fnName]
	}
	if fnKey == "" {
		if n, isNamed := c.Value.Type().(*types.Named); isNamed && n.Obj().Pkg() != nil {
			k := "functype:" + n.Obj().Pkg().Path() + "." + n.Obj().Name()
			if x.db.Funcs[k] != nil {
				fnKey, fnName = k, n.Obj().Name()
			}
		}
	}
	if fnKey != "" {
		{
			key, p := fnKey, c.Value
			ct := x.db.Funcs[strings.TrimPrefix(key, "std:")]
			if ct == nil {
				specFail("fnspec %s: unknown contract %s", fnName, key)
			}
			sig := p.Type().Underlying().(*types.Signature)
			var names []string
			pn := strings.Fields(strings.ReplaceAll(ct.ParamNames, ",", " "))
			for i := 0; i < sig.Params().Len(); i++ {
				n := sig.Params().At(i).Name()
				if i < len(pn) {
					n = pn[i]
				}
				names = append(names, n)
			}
			if ok {
				x.nilFuncCheck(st, fv, v, cn)
			}
			x.applyContract(st, ct, sig, names, args, v, cn)
			return !st.dead
		}
	}
	if ok {
		x.nilFuncCheck(st, fv, v, cn)
	}
	x.havocCall(st, v, "funcvalue:"+cn.name, args, cn)
	return true
}

func (x *Exec) nilFuncCheck(st *State, fv FuncV, v *ssa.Call, cn callName) {
	b := x.b
	if fid := x.funcID(fv); x.contract != nil && x.contract.HeapNonNil && fid.Op == "select" {
		x.notes["pointers and interfaces loaded from memory are assumed non-nil (heapnonnil sweep contract)"] = true
		st.assume(b.Ne(fid, b.Int(0)))
	} else {
		x.check(st, "nil", "call "+cn.name, v, b.Ne(fid, b.Int(0)), "call of nil function value")
	}
}

func ifaceKeys(c *ssa.CallCommon) []string {
	var keys []string
	if n, ok := c.Value.Type().(*types.Named); ok && n.Obj().Pkg() != nil {
		keys = append(keys, "iface:"+n.Obj().Pkg().Path()+"."+n.Obj().Name()+"."+c.Method.Name())
	} else if n, ok := c.Value.Type().(*types.Named); ok {
		keys = append(keys, "iface:"+n.Obj().Name()+"."+c.Method.Name()) // error
	}
	// the interface that declares the method
	if recv := c.Method.Type().(*types.Signature).Recv(); recv != nil {
		if n, ok := recv.Type().(*types.Named); ok {
			if n.Obj().Pkg() != nil {
				keys = append(keys, "iface:"+n.Obj().Pkg().Path()+"."+n.Obj().Name()+"."+c.Method.Name())
			} else {
				keys = append(keys, "iface:"+n.Obj().Name()+"."+c.Method.Name())
			}
		}
	}
	return keys
}

func (x *Exec) shouldAutoInline(fn *ssa.Function, depth int) bool {
	if fn == nil || len(fn.Blocks) == 0 || depth > 8 {
		return false
	}
	if fn.Pkg == nil || !strings.HasPrefix(fn.Pkg.Pkg.Path(), modPath) {
		return false
	}
	// only helpers of the package under verification (and the byte-order helpers) are inlined
	// without being asked for; everything else needs a contract or is havocked
	limit := 60
	if x.fn != nil && x.fn.Pkg != nil && fn.Pkg != x.fn.Pkg && !strings.HasSuffix(fn.Pkg.Pkg.Path(), "/internal/byteorder") && !strings.HasSuffix(fn.Pkg.Pkg.Path(), "/internal/alias") {
		limit = 12 // trivial wrappers and constructors of other packages only
		if x.contract != nil && x.contract.HeapNonNil {
			return false // sweep contracts stay inside their package; other packages need contracts
		}
	}
	if len(x.loopsOf(fn)) > 0 {
		return false
	}
	n := 0
	for _, b := range fn.Blocks {
		for _, in := range b.Instrs {
			if _, ok := in.(*ssa.DebugRef); ok {
				continue
			}
			n++
			switch in.(type) {
			case *ssa.Defer, *ssa.Go, *ssa.Select:
				return false
			}
		}
	}
	return n <= limit
}

func (x *Exec) callFunc(st *State, v *ssa.Call, callee *ssa.Function, args []Value, bindings []Value, cn callName) bool {
	fr := st.frameTop()
	key := FuncKey(callee)
	if key == "sync.(*Once).Do" && len(args) == 2 {
		// both histories: this is the first call (the function runs) or a later one (it is skipped)
		if fv, ok := args[1].(FuncV); ok && fv.Fn != nil && len(fv.Fn.Blocks) > 0 {
			if x.countPath() {
				other := st.fork()
				other.frameTop().env[v] = TupleV{}
				x.work = append(x.work, other)
			}
			x.notes["sync.Once.Do: both histories are explored (the first call runs the function, a later call skips it)"] = true
			x.pushFrame(st, fv.Fn, nil, v, fv.Bindings)
			return true
		}
	}
	top := x.contract
	ct := x.db.Funcs[key]
	qual := callee.Name()
	if callee.Pkg != nil {
		qual = callee.Pkg.Pkg.Name() + "." + callee.Name()
	}
	forceInline := top != nil && (top.InlineCalls[cn.name] || top.InlineCalls[callee.Name()] || top.InlineCalls[qual])
	forceHavoc := top != nil && (top.HavocCalls[cn.name] || top.HavocCalls[callee.Name()])
	if fr.contract != nil && fr.contract != top {
		forceInline = forceInline || fr.contract.InlineCalls[cn.name]
		forceHavoc = forceHavoc || fr.contract.HavocCalls[cn.name]
	}
	if forceHavoc {
		x.havocCall(st, v, key, args, cn)
		return true
	}
	if ct != nil && !ct.Inline && !forceInline {
		names := make([]string, len(callee.Params))
		for i, p := range callee.Params {
			names[i] = p.Name()
		}
		if ct.ParamNames != "" {
			// "params a b": the contract's own names for the (non-receiver) parameters, for
			// functions whose parameter names differ between build variants
			off := 0
			if callee.Signature.Recv() != nil {
				off = 1
			}
			for i, n := range strings.Fields(strings.ReplaceAll(ct.ParamNames, ",", " ")) {
				if off+i < len(names) {
					names[off+i] = n
				}
			}
		}
		if len(ct.FreshOrNil) > 0 && x.countPath() {
			// the history in which the "nil or new" results are nil
			other := st.fork()
			x.nilFreshFork = true
			x.applyContract(other, ct, callee.Signature, names, args, v, cn)
			x.nilFreshFork = false
			if !other.dead {
				x.work = append(x.work, other)
			}
		}
		x.applyContract(st, ct, callee.Signature, names, args, v, cn)
		return !st.dead
	}
	if len(callee.Blocks) > 0 && (forceInline || (ct != nil && ct.Inline) || callee.Parent() != nil || x.shouldAutoInline(callee, len(st.frames))) {
		if len(st.frames) > 24 {
			panic(unsupported("inline depth exceeded (recursion?) at " + key))
		}
		for _, f := range st.frames {
			if f.fn == callee {
				panic(unsupported("recursive inlining of " + key))
			}
		}
		x.inlined[shortPkg(key)] = true
		x.pushFrame(st, callee, args, v, bindings)
		return true
	}
	x.havocCall(st, v, key, args, cn)
	return true
}

// havocCall models a call to a function without contract: results and all memory unconstrained.
func (x *Exec) havocCall(st *State, v *ssa.Call, key string, args []Value, cn callName) {
	fr := st.frameTop()
	x.havocked[shortPkg(key)] = true
	reach := false
	for _, a := range args {
		switch a.(type) {
		case PtrV, SliceV, IfaceV, FuncV, MapV, StructV, TupleV, OpaqueV:
			reach = true
		}
	}
	if reach || true {
		x.havocAll(st)
	}
	var facts []*Term
	x.noObjSign = true
	x.allocFloor = *st.nextObj
	fr.env[v] = x.symbolic(v.Type(), "ret."+cn.name, &facts)
	x.noObjSign = false
	for _, f := range facts {
		st.assume(f)
	}
}

// applyContract replaces a call by the callee's contract.
func (x *Exec) applyContract(st *State, ct *Contract, sig *types.Signature, names []string, args []Value, v *ssa.Call, cn callName) {
	fr := st.frameTop()
	b := x.b
	if ct.Trusted {
		x.trusted[shortPkg(ct.Key)] = true
	}
	pre := st.snapshot()
	nm := map[string]Value{}
	for i, n := range names {
		if n != "" && n != "_" {
			nm[n] = args[i]
		}
	}
	if sig.Recv() != nil && len(args) > 0 {
		if _, taken := nm["self"]; !taken {
			nm["self"] = args[0] // the receiver, whatever the build's source calls it
		}
	}
	ctx := &SpecCtx{x: x, st: st, names: nm, old: pre, pkg: pkgOfKey(x, ct)}
	// configuration names that stand for an entry expression: its value here, which has to be one
	// of the verified cases
	for _, cs := range ct.Configs {
		if cs.Alias == nil {
			continue
		}
		v := x.evalInt(ctx, cs.Alias)
		nm[cs.Name] = v
		var alts []*Term
		for _, c := range cs.Values {
			alts = append(alts, b.Eq(v, b.Int(c)))
		}
		x.check(st, fmt.Sprintf("call:%s#%d:case:%s", cn.name, cn.ord, cs.Name), "", nil, b.Or(alts...), cs.Alias.String()+" is one of the verified configurations")
	}
	// default preconditions: non-nil pointer parameters
	for i, n := range names {
		if p, ok := args[i].(PtrV); ok && !ct.Nullable[n] {
			g := b.Ne(p.Obj, b.Int(0))
			if !g.IsTrue() {
				if x.contract != nil && x.contract.HeapNonNil && p.Obj.Op == "select" {
					x.notes["pointers and interfaces loaded from memory are assumed non-nil (heapnonnil sweep contract)"] = true
					st.assume(g)
					continue
				}
				x.check(st, fmt.Sprintf("call:%s#%d:nonnil:%s", cn.name, cn.ord, n), "", nil, g, "argument "+n+" is not nil")
			}
		}
	}
	x.evalLets(ctx, ct)
	for i, r := range ct.Requires {
		g := x.evalBool(ctx, r)
		x.check(st, fmt.Sprintf("call:%s#%d:pre%d", cn.name, cn.ord, i+1), "", nil, g, r.String())
	}
	if ct.Decreases != nil && x.contract == ct {
		// self-recursion: the measure decreases and is bounded below
		m1 := x.evalInt(ctx, ct.Decreases)
		top := st.frameBottom()
		tctx := x.specCtx(st, top)
		tctx.st = tctx.oldState()
		tctx.inOld = true
		m0 := x.evalInt(tctx, ct.Decreases)
		x.check(st, fmt.Sprintf("call:%s#%d:dec", cn.name, cn.ord), "", nil, b.And(b.Lt(m1, m0), b.Le(b.Int(0), m0)), "recursion measure decreases: "+ct.Decreases.String())
	}
	if st.dead {
		return
	}
	// frame
	if ct.ModAll {
		x.havocAll(st)
	} else {
		for _, m := range ct.Modifies {
			for _, loc := range x.evalLoc(ctx, m) {
				x.havocLoc(st, loc)
			}
		}
		for _, h := range ct.ModHeaps {
			x.havocHeapKind(st, h, false)
		}
		for _, h := range ct.ModFresh {
			x.havocHeapKind(st, h, true)
		}
	}
	// results
	res := sig.Results()
	var rvals []Value
	var facts []*Term
	freshSet := map[string]bool{}
	for _, f := range ct.Fresh {
		freshSet[f] = true
	}
	rnames := resultNames(sig)
	x.noObjSign = true
	x.allocFloor = *st.nextObj
	defer func() { x.noObjSign = false }()
	for i := 0; i < res.Len(); i++ {
		rv := x.symbolic(res.At(i).Type(), "ret."+cn.name+"."+rnames[i][0], &facts)
		isFresh := false
		for _, n := range rnames[i] {
			if freshSet[n] {
				isFresh = true
			}
		}
		if isFresh {
			o := b.Int(st.newObjID())
			for _, n := range rnames[i] {
				if ct.FreshOrNil[n] && x.nilFreshFork {
					o = b.Int(0)
				}
			}
			switch r := rv.(type) {
			case SliceV:
				r.Obj, r.Off = o, b.Int(0)
				rv = r
			case PtrV:
				r.Obj, r.Off = o, b.Int(0)
				rv = r
			}
		}
		rvals = append(rvals, rv)
	}
	for _, f := range facts {
		st.assume(f)
	}
	post := &SpecCtx{x: x, st: st, names: map[string]Value{}, old: pre, pkg: ctx.pkg}
	for k, val := range ctx.names {
		post.names[k] = val
	}
	for i, ns := range rnames {
		for _, n := range ns {
			post.names[n] = rvals[i]
		}
	}
	// names bound inside the callee ("bind") are unknown values from the caller's point of view
	for _, a := range ct.Asserts {
		if a.Bind != "" {
			if _, ok := post.names[a.Bind]; !ok {
				srt := SInt
				if a.E.Kind == "call" && (a.E.Name == "arr" || a.E.Name == "upd") {
					srt = SArr(SInt, SInt)
				}
				post.names[a.Bind] = b.Fresh("callee."+a.Bind, srt)
			}
		}
	}
	for _, gs := range ct.GhostSets {
		x.applyGhostSet(post, gs)
	}
	for _, e := range ct.Ensures {
		f := x.evalBool(post, e)
		st.assume(f)
		if !ct.Trusted || true {
			// also in the form normalised by the integer equations known on this path
			if rf := x.rewriteWithEqs(st, f); rf != f {
				st.assume(rf)
			}
		}
		// a scalar result that the contract pins to a literal is used as that literal from now on
		for i, rv := range rvals {
			if t, ok := rv.(*Term); ok && t.Op == "const" {
				x.pinResult(f, t)
				if lit, ok := x.b.known[t]; ok {
					rvals[i] = lit
					for _, n := range rnames[i] {
						post.names[n] = lit
					}
				}
			}
		}
	}
	switch len(rvals) {
	case 0:
		fr.env[v] = TupleV{}
	case 1:
		fr.env[v] = rvals[0]
	default:
		fr.env[v] = TupleV(rvals)
	}
}

func pkgOfKey(x *Exec, ct *Contract) *types.Package {
	if ct.Pkg != "" {
		if p := x.prog.Pkgs[ct.Pkg]; p != nil {
			return p.Pkg
		}
	}
	// stdlib keys: "pkgpath.Func" or "iface:pkgpath.Type.Method"
	k := strings.TrimPrefix(ct.Key, "iface:")
	for k != "" {
		i := strings.LastIndex(k, ".")
		if i < 0 {
			break
		}
		k = k[:i]
		kk := strings.TrimSuffix(strings.TrimSuffix(k, ")"), "(")
		if p := x.prog.Pkgs[kk]; p != nil {
			return p.Pkg
		}
		if j := strings.Index(k, ".("); j >= 0 {
			if p := x.prog.Pkgs[k[:j]]; p != nil {
				return p.Pkg
			}
		}
	}
	return nil
}

// resultNames gives, per result, the names it can be referred to in contracts.
func resultNames(sig *types.Signature) [][]string {
	res := sig.Results()
	out := make([][]string, res.Len())
	for i := 0; i < res.Len(); i++ {
		out[i] = append(out[i], fmt.Sprintf("result%d", i))
		if n := res.At(i).Name(); n != "" && n != "_" {
			out[i] = append(out[i], n)
		}
		if i == 0 {
			out[i] = append(out[i], "result")
		}
		if i == res.Len()-1 && res.At(i).Name() == "" && types.TypeString(res.At(i).Type(), nil) == "error" {
			out[i] = append(out[i], "err")
		}
	}
	return out
}

// ---------- builtins

func (x *Exec) builtin(st *State, v *ssa.Call, name string, args []Value) Value {
	b := x.b
	switch name {
	case "len":
		switch a := args[0].(type) {
		case SliceV:
			return a.Len
		case StringV:
			return a.Len
		case ArrayV:
			return b.Int(a.N)
		case PtrV:
			return b.Int(a.Elem.Underlying().(*types.Array).Len())
		case MapV:
			l := b.Fresh("maplen", SInt)
			st.assumeBound(x, l, new(big.Int), nil)
			return l
		}
	case "cap":
		switch a := args[0].(type) {
		case SliceV:
			return a.Cap
		case ArrayV:
			return b.Int(a.N)
		case PtrV:
			return b.Int(a.Elem.Underlying().(*types.Array).Len())
		}
	case "copy":
		dst := args[0].(SliceV)
		var n *Term
		switch src := args[1].(type) {
		case SliceV:
			n = b.Ite(b.Le(dst.Len, src.Len), dst.Len, src.Len)
			x.copyRange(st, dst.Elem, dst.Obj, dst.Off, src.Obj, src.Off, n, st.snapshotHeaps())
		case StringV:
			n = b.Ite(b.Le(dst.Len, src.Len), dst.Len, src.Len)
			if src.Obj != nil {
				x.copyRange(st, dst.Elem, dst.Obj, dst.Off, src.Obj, src.Off, n, st.snapshotHeaps())
			} else if src.Lit != nil && len(*src.Lit) <= 64 {
				hn, es, _ := x.elemHeap(dst.Elem)
				h := st.heap(x, hn, SArr(SInt, SArr(SInt, es)))
				arr := b.Select(h, dst.Obj)
				// copies min(len(dst), len(lit)) bytes: guarded stores
				for i := 0; i < len(*src.Lit); i++ {
					idx := b.Add(dst.Off, b.Int(int64(i)))
					arr = b.Store(arr, idx, b.Ite(b.Lt(b.Int(int64(i)), n), x.byteLit((*src.Lit)[i]), b.Select(arr, idx)))
				}
				st.setHeap(hn, b.Store(h, dst.Obj, arr), dst.Obj)
			} else {
				x.havocRange(st, dst.Elem, dst.Obj, dst.Off, b.Add(dst.Off, n))
			}
		}
		return n
	case "clear":
		switch a := args[0].(type) {
		case SliceV:
			x.fillZero(st, a.Elem, a.Obj, a.Off, b.Add(a.Off, a.Len))
		case MapV:
		}
		return TupleV{}
	case "append":
		return x.appendBuiltin(st, v, args)
	case "min", "max":
		r := args[0].(*Term)
		for _, a := range args[1:] {
			t := a.(*Term)
			if isBV(r.Sort) {
				panic(unsupported("min/max on bit-vectors"))
			}
			if name == "min" {
				r = b.Ite(b.Le(r, t), r, t)
			} else {
				r = b.Ite(b.Le(r, t), t, r)
			}
		}
		return r
	case "print", "println", "delete":
		return TupleV{}
	case "ssa:wrapnilchk":
		if p, ok := args[0].(PtrV); ok {
			x.nilCheck(st, p, v, "wrapnilchk")
		}
		return args[0]
	case "recover":
		return IfaceV{Typ: b.Int(0), Val: b.Int(0), T: v.Type()}
	case "real", "imag", "complex":
		return OpaqueV{T: v.Type(), ID: b.Fresh("cplx", SInt)}
	}
	panic(unsupported("builtin " + name))
}

func (st *State) snapshotHeaps() map[string]*Term {
	m := make(map[string]*Term, len(st.heaps))
	for k, v := range st.heaps {
		m[k] = v
	}
	return m
}

type heapRef struct {
	name string
	es   string
}

// elemHeaps lists the component heaps that store elements of the given type.
func (x *Exec) elemHeaps(elem types.Type) []heapRef {
	if hn, es, ok := x.elemHeap(elem); ok {
		return []heapRef{{hn, es}}
	}
	switch elem.Underlying().(type) {
	case *types.Slice:
		return []heapRef{{"H_sl#obj", SInt}, {"H_sl#off", SInt}, {"H_sl#len", SInt}, {"H_sl#cap", SInt}}
	case *types.Interface:
		return []heapRef{{"H_if#ityp", SInt}, {"H_if#ival", SInt}}
	}
	panic(unsupported("bulk operation on elements of type " + elem.String()))
}

// copyRange copies n elements from (srcObj, srcOff) to (dstObj, dstOff) with memmove semantics:
// the source is read from the heaps as they were before the copy.
func (x *Exec) copyRange(st *State, elem types.Type, dstObj, dstOff, srcObj, srcOff, n *Term, before map[string]*Term) {
	b := x.b
	if n.IsLit() && n.Val.Sign() <= 0 {
		return
	}
	for _, hr := range x.elemHeaps(elem) {
		hs := SArr(SInt, SArr(SInt, hr.es))
		cur := st.heap(x, hr.name, hs)
		old, ok := before[hr.name]
		if !ok {
			old = cur
		}
		srcArr := b.Select(old, srcObj)
		dstArr := b.Select(cur, dstObj)
		if k, ok := n.Int64(); ok && k <= 64 {
			arr := dstArr
			for i := int64(0); i < k; i++ {
				arr = b.Store(arr, b.Add(dstOff, b.Int(i)), b.Select(srcArr, b.Add(srcOff, b.Int(i))))
			}
			st.setHeap(hr.name, b.Store(cur, dstObj, arr), dstObj)
			continue
		}
		na := b.Fresh("copy", SArr(SInt, hr.es))
		i := b.Var("i!c", SInt)
		in := b.And(b.Le(dstOff, i), b.Lt(i, b.Add(dstOff, n)))
		st.assumeDef(x, b.Forall([]*Term{i}, b.Eq(b.mk("select", hr.es, "", nil, na, i),
			b.Ite(in, b.mk("select", hr.es, "", nil, srcArr, b.Add(b.Sub(i, dstOff), srcOff)), b.mk("select", hr.es, "", nil, dstArr, i)))))
		st.setHeap(hr.name, b.Store(cur, dstObj, na), dstObj)
	}
}

func (x *Exec) zeroOf(es string) *Term {
	switch {
	case es == SBool:
		return x.b.False()
	case es == SInt:
		return x.b.Int(0)
	}
	return x.b.BV(new(big.Int), bvWidth(es))
}

// fillZero zeroes elements [lo, hi) (absolute indices) of obj.
func (x *Exec) fillZero(st *State, elem types.Type, obj, lo, hi *Term) {
	b := x.b
	for _, hr := range x.elemHeaps(elem) {
		hs := SArr(SInt, SArr(SInt, hr.es))
		cur := st.heap(x, hr.name, hs)
		arr := b.Select(cur, obj)
		d := b.Sub(hi, lo)
		if k, ok := d.Int64(); ok && k <= 64 {
			for i := int64(0); i < k; i++ {
				arr = b.Store(arr, b.Add(lo, b.Int(i)), x.zeroOf(hr.es))
			}
			st.setHeap(hr.name, b.Store(cur, obj, arr), obj)
			continue
		}
		na := b.Fresh("clear", SArr(SInt, hr.es))
		i := b.Var("i!z", SInt)
		in := b.And(b.Le(lo, i), b.Lt(i, hi))
		st.assumeDef(x, b.Forall([]*Term{i}, b.Eq(b.mk("select", hr.es, "", nil, na, i),
			b.Ite(in, x.zeroOf(hr.es), b.mk("select", hr.es, "", nil, arr, i)))))
		st.setHeap(hr.name, b.Store(cur, obj, na), obj)
	}
}

// havocRange makes elements [lo, hi) of obj unconstrained.
func (x *Exec) havocRange(st *State, elem types.Type, obj, lo, hi *Term) {
	for _, hr := range x.elemHeaps(elem) {
		x.havocLoc(st, Loc{Heap: hr.name, Sort: SArr(SInt, SArr(SInt, hr.es)), Obj: obj, Lo: lo, Hi: hi})
	}
}

func (x *Exec) appendBuiltin(st *State, v *ssa.Call, args []Value) Value {
	b := x.b
	s := args[0].(SliceV)
	var n *Term
	var srcObj, srcOff *Term
	switch t := args[1].(type) {
	case SliceV:
		n, srcObj, srcOff = t.Len, t.Obj, t.Off
	case StringV:
		n = t.Len
		if t.Obj != nil {
			srcObj, srcOff = t.Obj, t.Off
		}
	}
	if n.IsLit() && n.Val.Sign() == 0 {
		return s
	}
	newLen := b.Add(s.Len, n)
	fits := b.Le(newLen, s.Cap)
	before := st.snapshotHeaps()
	inPlace := func(t *State) Value {
		if srcObj != nil {
			x.copyRange(t, s.Elem, s.Obj, b.Add(s.Off, s.Len), srcObj, srcOff, n, before)
		} else {
			x.havocRange(t, s.Elem, s.Obj, b.Add(s.Off, s.Len), b.Add(s.Off, newLen))
		}
		return SliceV{Obj: s.Obj, Off: s.Off, Len: newLen, Cap: s.Cap, Elem: s.Elem}
	}
	realloc := func(t *State) Value {
		nc := b.Fresh("appendcap", SInt)
		t.assumeBound(x, nc, new(big.Int), pow2(maxLenLog))
		t.assume(b.mk("<=", SBool, "", nil, newLen, nc))
		r := x.freshSlice(t, s.Elem, newLen, nc)
		saved := t.rec
		t.rec = nil
		x.copyRange(t, s.Elem, r.Obj, b.Int(0), s.Obj, s.Off, s.Len, before)
		if srcObj != nil {
			x.copyRange(t, s.Elem, r.Obj, s.Len, srcObj, srcOff, n, before)
		} else {
			x.havocRange(t, s.Elem, r.Obj, s.Len, newLen)
		}
		t.rec = saved
		return r
	}
	if fits.IsTrue() {
		return inPlace(st)
	}
	if fits.IsFalse() {
		return realloc(st)
	}
	if !x.countPath() {
		st.dead = true
		return s
	}
	other := st.fork()
	other.assume(b.Not(fits))
	if !other.dead {
		other.frameTop().env[v] = realloc(other)
		x.work = append(x.work, other)
	}
	st.assume(fits)
	return inPlace(st)
}

// ---------- locations and havoc

type Loc struct {
	Heap   string
	Sort   string
	Obj    *Term
	Lo, Hi *Term // absolute element range; nil = whole object (or scalar field)
	Global bool
	Ref    bool // the cells hold object ids (pointer, slice base, interface value)
}

func refHeapName(h string) bool {
	return h == "H_ptr" || strings.HasSuffix(h, "#obj") || strings.HasSuffix(h, "#ival") || strings.HasSuffix(h, "#sobj")
}

func (x *Exec) havocLoc(st *State, l Loc) {
	b := x.b
	cur := st.heap(x, l.Heap, l.Sort)
	es := arrElem(l.Sort)
	isRef := l.Ref || refHeapName(l.Heap)
	// a reference written by the callee denotes an object that exists when the call returns: it is
	// none of the ids handed out by later allocations
	floor := func(c *Term) *Term {
		if isRef && c.Sort == SInt {
			st.assume(b.mk("<=", SBool, "", nil, b.Int(*st.nextObj), c))
		}
		return c
	}
	if l.Lo == nil {
		st.setHeap(l.Heap, b.Store(cur, l.Obj, floor(b.Fresh(l.Heap+"@mod", es))), l.Obj)
		return
	}
	d := b.Sub(l.Hi, l.Lo)
	if d.IsLit() && d.Val.Sign() <= 0 {
		return
	}
	ees := arrElem(es)
	if k, ok := d.Int64(); ok && k <= 8 {
		// a few cells: plain stores of fresh values (no quantified frame needed)
		arr := b.Select(cur, l.Obj)
		for i := int64(0); i < k; i++ {
			arr = b.Store(arr, b.Add(l.Lo, b.Int(i)), floor(b.Fresh(l.Heap+"@modc", ees)))
		}
		st.setHeap(l.Heap, b.Store(cur, l.Obj, arr), l.Obj)
		return
	}
	arr := b.Select(cur, l.Obj)
	na := b.Fresh(l.Heap+"@mod", es)
	i := b.Var("i!m", SInt)
	in := b.And(b.Le(l.Lo, i), b.Lt(i, l.Hi))
	st.assumeDef(x, b.Forall([]*Term{i}, b.Or(in, b.Eq(b.mk("select", ees, "", nil, na, i), b.mk("select", ees, "", nil, arr, i)))))
	st.setHeap(l.Heap, b.Store(cur, l.Obj, na), l.Obj)
}

// ---------- dry run of a loop body to find what it writes

func (x *Exec) dryRunLoop(st *State, loop *Loop, spec *LoopSpec, phis []*ssa.Phi) *recorder {
	fr := st.frameTop()
	bad := map[*ssa.Phi]bool{}
	// written: heaps the loop may write (found by a first, fully pessimistic pass); nil = havoc all
	var written map[string]bool
	for iter := 0; iter < 6; iter++ {
		s2 := st.fork()
		rec := &recorder{targets: map[string]map[*Term]bool{}, whole: map[string]bool{}, phiBad: bad, nonpos: map[string]map[*Term]bool{}, freshWhole: map[string]bool{}}
		s2.rec = nil
		mark := x.b.nextID
		// pessimistic havoc of everything known, fresh epoch for heaps touched later
		f2 := s2.frameTop()
		for _, p := range phis {
			var facts []*Term
			x.noObjSign = true
			x.allocFloor = -(1 << 60)
			nv := x.symbolic(p.Type(), "dry."+p.Name(), &facts)
			x.noObjSign = false
			if !bad[p] {
				nv = keepObj(f2.env[p], nv)
			}
			f2.env[p] = nv
			for _, f := range facts {
				s2.assume(f)
			}
		}
		var names []string
		for h := range s2.heaps {
			names = append(names, h)
		}
		sort.Strings(names)
		for _, h := range names {
			if written == nil || written[h] {
				s2.heaps[h] = x.b.Fresh(h+"@dry", x.heapSorts[h])
			}
		}
		if written == nil {
			s2.heapsAllHavoc(x)
		}
		dryEpoch := s2.epoch
		ctx := x.specCtx(s2, f2)
		for _, inv := range spec.Invariants {
			s2.assume(x.evalBool(ctx, inv))
		}
		s2.rec = rec
		s2.dry = loop
		s2.dryDepth = len(s2.frames)
		changed := false
		f2.active[loop.Head] = &activeLoop{dry: true, bad: bad, changed: &changed}
		// run
		savedWork, savedDiscard, savedPaths := x.work, x.discard, x.paths
		x.work = []*State{s2}
		x.discard = true
		x.run()
		x.work, x.discard = savedWork, savedDiscard
		x.paths = savedPaths
		if len(x.errs) > 0 {
			return rec
		}
		if changed {
			continue // some slice phi changes its object: redo pessimistically
		}
		if written == nil && !rec.all {
			// second pass: only the heaps that are written at all are unknown at the loop head
			written = map[string]bool{}
			for h := range rec.targets {
				written[h] = true
			}
			for h := range rec.freshWhole {
				written[h] = true
			}
			for h := range rec.whole {
				written[h] = true
			}
			continue
		}
		// classify targets
		out := &recorder{targets: map[string]map[*Term]bool{}, whole: map[string]bool{}, all: rec.all, phiBad: bad, negonly: map[string]bool{}}
		hardWhole := map[string]bool{}
		for h := range rec.whole {
			out.whole[h] = true
			hardWhole[h] = true
		}
		for h, objs := range rec.targets {
			for o := range objs {
				if x.variant(o, mark, dryEpoch) {
					out.whole[h] = true
					if !rec.nonpos[h][o] {
						hardWhole[h] = true
					}
				} else {
					if out.targets[h] == nil {
						out.targets[h] = map[*Term]bool{}
					}
					out.targets[h][o] = true
				}
			}
		}
		for h := range rec.freshWhole {
			out.whole[h] = true // havocked as a whole, but only in memory allocated by this activation
		}
		for h := range out.whole {
			if !hardWhole[h] {
				out.negonly[h] = true
			}
		}
		_ = fr
		return out
	}
	x.fail("%s: loop %d: dry run did not stabilise", FuncKey(fr.fn), loop.Ord)
	return nil
}

// keepObj keeps the object identity of a slice/pointer across a loop havoc.
func keepObj(old, nv Value) Value {
	switch o := old.(type) {
	case SliceV:
		n := nv.(SliceV)
		n.Obj = o.Obj
		return n
	case PtrV:
		n := nv.(PtrV)
		if o.FieldOf == nil {
			n.Obj = o.Obj
		}
		return n
	}
	return nv
}

// variant reports whether t mentions a symbol created after mark (a havocked value of the dry run).
func (x *Exec) variant(t *Term, mark int, epoch int) bool {
	seen := map[*Term]bool{}
	var rec func(t *Term) bool
	rec = func(t *Term) bool {
		if seen[t] {
			return false
		}
		seen[t] = true
		if t.Op == "const" && t.id > mark {
			return true
		}
		for _, a := range t.Args {
			if rec(a) {
				return true
			}
		}
		return false
	}
	return rec(t)
}

// pinResult records sym == literal when f is such an equation (or a conjunction containing one),
// also through one step of sym == t where t is already known to be a literal.
func (x *Exec) pinResult(f *Term, sym *Term) {
	switch f.Op {
	case "and":
		for _, a := range f.Args {
			x.pinResult(a, sym)
		}
	case "=":
		l, r := f.Args[0], f.Args[1]
		if r == sym {
			l, r = r, l
		}
		if l != sym {
			return
		}
		if r.Op == "int" {
			x.b.known[sym] = r
			x.b.symLo[sym], x.b.symHi[sym] = r.Val, r.Val
			x.b.bcache = map[*Term][2]*big.Int{}
		} else if lit, ok := x.b.known[r]; ok {
			x.b.known[sym] = lit
			x.b.symLo[sym], x.b.symHi[sym] = lit.Val, lit.Val
			x.b.bcache = map[*Term][2]*big.Int{}
		}
	}
}

// userAsserts handles "assert/apply before|after call f#k" clauses of the enclosing contract.
func (x *Exec) userAsserts(st *State, fr *Frame, cn callName, after bool) {
	if fr.contract == nil {
		return
	}
	for i, a := range fr.contract.Asserts {
		if a.Callee == "*" {
			// every call (not the entry/return anchors)
			if a.After != after || strings.HasPrefix(cn.name, "@") {
				continue
			}
		} else if a.Callee != cn.name || a.Ord != cn.ord || a.After != after {
			continue
		}
		ctx := x.specCtx(st, fr)
		x.assertFired[fr.contract.Key+"#"+fmt.Sprint(i)] = true
		for k, av := range x.curArgs {
			ctx.names[fmt.Sprintf("arg%d", k)] = av
		}
		if cn.name == "@return" && x.curRet != nil {
			// the values being returned, under the result names of the signature
			for k, ns := range resultNames(fr.fn.Signature) {
				if k < len(x.curRet) {
					for _, n := range ns {
						ctx.names[n] = x.curRet[k]
					}
				}
			}
		}
		if after && x.curCall != nil {
			if rv, ok := fr.env[x.curCall]; ok {
				ctx.names["result"] = rv // the value returned by the call this clause is anchored to
				if tv, ok := rv.(TupleV); ok {
					for k, e := range tv {
						ctx.names[fmt.Sprintf("result%d", k)] = e
					}
				}
			}
		}
		if a.Bind != "" {
			nl := map[string]Value{}
			for k, v := range fr.lets {
				nl[k] = v
			}
			nl[a.Bind] = x.eval(ctx, a.E)
			fr.lets = nl
			continue
		}
		if a.Lemma != "" {
			lm := x.db.lemma(a.Lemma)
			if lm == nil {
				specFail("apply: unknown lemma %s", a.Lemma)
			}
			if len(a.Args) != len(lm.Vars) {
				specFail("apply %s: %d arguments for %d variables", a.Lemma, len(a.Args), len(lm.Vars))
			}
			vals := map[string]*Term{}
			for j, v := range lm.Vars {
				n, _, _ := strings.Cut(v, ":")
				t, ok := x.eval(ctx, a.Args[j]).(*Term)
				if !ok {
					specFail("apply %s: argument %d is not a term", a.Lemma, j+1)
				}
				vals[n] = t
			}
			x.lemmaFacts = nil
			inst := x.lemmaTerm(lm, func(n, s string) *Term {
				if vals[n].Sort != s {
					specFail("apply %s: argument %s has sort %s, want %s", a.Lemma, n, vals[n].Sort, s)
				}
				return vals[n]
			})
			for _, lf := range x.lemmaFacts {
				// lemmas used inside the applied lemma's statement are themselves proved facts
				st.assume(lf)
			}
			x.lemmaFacts = nil
			if lm.Induct != "" {
				inst = x.b.Implies(x.b.Le(x.b.Int(0), vals[lm.Induct]), inst)
			}
			// rewrite with the integer equations already established on this path, so that the
			// instance's hypotheses coincide syntactically with asserted facts
			st.assume(x.rewriteWithEqs(st, inst))
			st.assume(inst)
			x.usedLemmas[a.Lemma] = true
			continue
		}
		g := x.evalBool(ctx, a.E)
		x.check(st, fmt.Sprintf("assert:%s#%d.%d", cn.name, cn.ord, i+1), "", nil, g, a.E.String())
	}
}

// havocHeapKind makes a whole component heap (and the heaps derived from it, "H_sl" = all four
// slice-header heaps) unconstrained.
func (x *Exec) havocHeapKind(st *State, h string, freshOnly bool) {
	var names []string
	for n := range x.heapSorts {
		if n == h || strings.HasPrefix(n, h+"#") {
			names = append(names, n)
		}
	}
	if _, ok := x.heapSorts[h]; !ok && !strings.Contains(h, "#") {
		// not touched yet: make sure it exists so that later reads see the havocked version
		switch {
		case strings.HasPrefix(h, "H_"):
			es := SInt
			if h == "H_bool" {
				es = SBool
			}
			x.heapSorts[h] = SArr(SInt, SArr(SInt, es))
			names = append(names, h)
		}
	}
	sort.Strings(names)
	for _, n := range names {
		cur := st.heap(x, n, x.heapSorts[n])
		nh := x.b.Fresh(n+"@asm", x.heapSorts[n])
		if freshOnly {
			// only memory allocated during this activation (ids <= 0) may have changed
			r := x.b.Var("r!af", SInt)
			es := arrElem(x.heapSorts[n])
			st.assumeDef(x, x.b.Forall([]*Term{r}, x.b.Implies(x.b.Lt(x.b.Int(0), r),
				x.b.Eq(x.b.mk("select", es, "", nil, nh, r), x.b.mk("select", es, "", nil, cur, r)))))
			st.heaps[n] = nh
			st.dirty[n] = true
			if st.rec != nil {
				st.rec.freshWhole[n] = true
			}
			continue
		}
		st.setHeap(n, nh, nil)
	}
}

func termSize(t *Term, seen map[*Term]bool) int {
	if seen[t] {
		return 0
	}
	seen[t] = true
	n := 1
	for _, a := range t.Args {
		n += termSize(a, seen)
	}
	return n
}

func (x *Exec) rewriteWithEqs(st *State, t *Term) *Term {
	m := map[*Term]*Term{}
	for _, f := range st.pc {
		if f.Op != "=" || f.Args[0].Sort != SInt || f.Args[0].bound || f.Args[1].bound {
			continue
		}
		l, r := f.Args[0], f.Args[1]
		sl, sr := termSize(l, map[*Term]bool{}), termSize(r, map[*Term]bool{})
		if sl < sr {
			l, r = r, l
			sl, sr = sr, sl
		}
		// replace the larger side l by r; only compound, non-literal l (ties: the newer term goes)
		if sl == sr && l.id < r.id {
			l, r = r, l
		}
		if sl <= 1 || l.IsLit() {
			continue
		}
		if _, dup := m[l]; !dup {
			m[l] = r
		}
	}
	if len(m) == 0 {
		return t
	}
	return x.b.Subst(t, m)
}
