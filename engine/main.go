package main

import (
	"flag"
	"fmt"
	"golang.org/x/tools/go/ssa"
	"os"
	"sort"
	"strings"
	"time"
)

var verifDir = "/verif"
var repoDir = "/repo"
var outDir = "/verif" // work/, evidence/, replays/ are written below this directory

func main() {
	if len(os.Args) < 2 {
		fmt.Fprintln(os.Stderr, "usage: gvc check <Cxx> quick|thorough | gvc func <pattern> | gvc list")
		os.Exit(2)
	}
	if v := os.Getenv("VERIF_DIR"); v != "" {
		verifDir = v
	}
	if v := os.Getenv("VERIF_REPO"); v != "" {
		repoDir = v
	}
	outDir = verifDir
	if v := os.Getenv("VERIF_OUT"); v != "" {
		outDir = v
	}
	switch os.Args[1] {
	case "func":
		cmdFunc(os.Args[2:])
	case "check":
		os.Exit(cmdCheck(os.Args[2:]))
	case "list":
		cmdList()
	case "lemmas":
		// gvc lemmas <Cxx>: discharge only the lemmas of a property
		db := loadDB()
		specFilesCache = loadSpecChunks(verifDir, db.Prelude)
		obls, err := lemmaObligations(db, os.Args[2])
		if err != nil {
			fmt.Fprintln(os.Stderr, err)
			os.Exit(2)
		}
		Discharge(obls, outDir+"/work/lemmas", 60)
		for _, o := range obls {
			fmt.Printf("%v %s %s %.2fs %s\n", o.OK(), o.Name, o.Result.Status, o.Result.Time, o.Result.Detail)
		}
	case "funcs":
		prog, err := LoadProgram(repoDir, "verif", []string{os.Args[2]})
		if err != nil {
			fmt.Fprintln(os.Stderr, err)
			os.Exit(2)
		}
		for k := range prog.funcs {
			if strings.HasPrefix(k, os.Args[2]) {
				fmt.Println(k)
			}
		}
	case "loops":
		// gvc loops <pkgpath> <funcname-substring>: loop ordinals with source lines
		prog, err := LoadProgram(repoDir, "verif", []string{os.Args[2]})
		if err != nil {
			fmt.Fprintln(os.Stderr, err)
			os.Exit(2)
		}
		for k, fn := range prog.funcs {
			if strings.Contains(k, os.Args[3]) && strings.HasPrefix(k, os.Args[2]) {
				for _, l := range FindLoops(fn) {
					fmt.Printf("%s loop %d: head block %d at %s (%d blocks)\n", shortPkg(k), l.Ord, l.Head.Index, prog.Fset.Position(loopPos(l)), len(l.Blocks))
				}
				x := NewExec(prog, NewContractDB(), fn, nil, "")
				for _, blk := range fn.Blocks {
					for _, in := range blk.Instrs {
						if _, ok := in.(ssa.CallInstruction); ok {
							cn := x.callNameOf(fn, in)
							fmt.Printf("%s call %s#%d at %s\n", shortPkg(k), cn.name, cn.ord, prog.Fset.Position(in.Pos()))
						}
					}
				}
			}
		}
	case "replay":
		os.Exit(cmdReplay(os.Args[2:]))
	case "selftest":
		os.Exit(cmdSelftest(os.Args[2:]))
	default:
		fmt.Fprintln(os.Stderr, "unknown command", os.Args[1])
		os.Exit(2)
	}
}

func loadDB() *ContractDB {
	db, err := LoadAllContracts(repoDir, verifDir)
	if err != nil {
		fmt.Fprintln(os.Stderr, "contract error:", err)
		os.Exit(2)
	}
	return db
}

func cmdList() {
	db := loadDB()
	for _, k := range db.Order {
		c := db.Funcs[k]
		fmt.Printf("%-80s %v trusted=%v\n", shortPkg(k), c.Properties, c.Trusted)
	}
}

// cmdFunc verifies the functions whose key contains the pattern and prints every obligation.
func cmdFunc(args []string) {
	fs := flag.NewFlagSet("func", flag.ExitOnError)
	timeout := fs.Int("t", 20, "solver timeout (s)")
	tags := fs.String("tags", "verif", "build tags")
	verbose := fs.Bool("v", false, "print path/assumption details")
	keep := fs.String("work", "", "work directory (default /verif/work/func)")
	fs.Parse(args)
	pat := fs.Arg(0)
	db := loadDB()
	pkgs := map[string]bool{}
	var sel []*Contract
	for _, k := range db.Order {
		c := db.Funcs[k]
		if strings.Contains(k, pat) && c.Pkg != "" && !c.Trusted {
			sel = append(sel, c)
			pkgs[c.Pkg] = true
		}
	}
	if len(sel) == 0 {
		fmt.Fprintln(os.Stderr, "no contract matches", pat)
		os.Exit(2)
	}
	var pats []string
	for p := range pkgs {
		pats = append(pats, p)
	}
	sort.Strings(pats)
	t0 := time.Now()
	prog, err := LoadProgram(repoDir, *tags, pats)
	if err != nil {
		fmt.Fprintln(os.Stderr, err)
		os.Exit(2)
	}
	fmt.Fprintf(os.Stderr, "loaded in %.1fs\n", time.Since(t0).Seconds())
	work := *keep
	if work == "" {
		work = outDir + "/work/func"
	}
	os.RemoveAll(work)
	bad := 0
	for _, c := range sel {
		fn := prog.Func(c.Key)
		if fn == nil {
			fmt.Printf("ENGINE-ERROR %s: function not found in SSA\n", c.Key)
			bad++
			continue
		}
		for _, cfg := range expandConfigs(c) {
			res := VerifyFunc(prog, db, fn, c, cfg.label, cfg.vals)
			for _, e := range res.Errors {
				fmt.Printf("ENGINE-ERROR %s: %s\n", res.Label, e)
				bad++
			}
			to := *timeout
			if c.Timeout > 0 {
				to = c.Timeout
			}
			if err := Discharge(res.Obls, work, to); err != nil {
				fmt.Printf("ENGINE-ERROR %s: %v\n", res.Label, err)
				bad++
			}
			groups := groupObls(res.Obls)
			for _, g := range groups {
				status := "ok  "
				if !g.ok {
					status = "FAIL"
					bad++
				}
				fmt.Printf("%s %-90s n=%d %s %.2fs %s\n", status, g.name, len(g.obls), g.backend, g.time, g.statusDetail())
				if !g.ok || *verbose {
					for _, o := range g.obls {
						if !o.OK() || *verbose {
							fmt.Printf("       %s [%s] %s %s\n         file %s\n", o.Pos, o.Info, o.Result.Status, o.Result.Detail, o.File)
						}
					}
				}
			}
			fmt.Printf("-- %s@%s: %d obligations (%d named), paths=%d returns=%d inlined=%v havocked=%v trusted=%v notes=%v\n",
				res.Label, cfg.label, len(res.Obls), len(groups), res.Paths, res.Returns, res.Inlined, res.Havocked, res.Trusted, res.Notes)
		}
	}
	if bad > 0 {
		os.Exit(1)
	}
}

type cfgInst struct {
	label string
	vals  map[string]int64
}

func expandConfigs(c *Contract) []cfgInst {
	out := []cfgInst{{"", map[string]int64{}}}
	for _, cs := range c.Configs {
		var next []cfgInst
		for _, base := range out {
			for _, v := range cs.Values {
				m := map[string]int64{}
				for k, vv := range base.vals {
					m[k] = vv
				}
				m[cs.Name] = v
				l := base.label
				if l != "" {
					l += ","
				}
				l += fmt.Sprintf("%s=%d", cs.Name, v)
				next = append(next, cfgInst{l, m})
			}
		}
		out = next
	}
	return out
}

type oblGroup struct {
	name    string
	obls    []*Obligation
	ok      bool
	backend string
	time    float64
}

func (g *oblGroup) statusDetail() string {
	m := map[string]int{}
	for _, o := range g.obls {
		m[o.Result.Status]++
	}
	var parts []string
	for k, v := range m {
		parts = append(parts, fmt.Sprintf("%s:%d", k, v))
	}
	sort.Strings(parts)
	return strings.Join(parts, ",")
}

// groupObls merges the per-path instances of an obligation under its name.
func groupObls(obls []*Obligation) []*oblGroup {
	idx := map[string]*oblGroup{}
	var out []*oblGroup
	for _, o := range obls {
		g := idx[o.Name]
		if g == nil {
			g = &oblGroup{name: o.Name, ok: true}
			idx[o.Name] = g
			out = append(out, g)
		}
		g.obls = append(g.obls, o)
		if !o.OK() {
			g.ok = false
		}
		g.time += o.Result.Time
		if g.backend == "" || g.backend == "simplifier" {
			g.backend = o.Result.Backend
		}
	}
	return out
}
