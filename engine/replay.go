package main

import (
	"fmt"
	"os"
	"path/filepath"
	"strings"
)

// writeReplay stores what is known about a failed obligation under /verif/replays and tries to
// turn the solver's model into a concrete input that is replayed against the real code.
func writeReplay(prop string, g *oblGroup, progs map[string]*Program) replayDir {
	name := sanitize(g.name)
	if len(name) > 120 {
		name = name[:120]
	}
	dir := filepath.Join(outDir, "replays", prop, name)
	os.RemoveAll(dir)
	os.MkdirAll(dir, 0o755)
	var bad *Obligation
	for _, o := range g.obls {
		if !o.OK() && (bad == nil || (o.Result.Status == "sat" && bad.Result.Status != "sat")) {
			bad = o
		}
	}
	rd := replayDir{path: dir}
	if bad == nil {
		return rd
	}
	if bad.File != "" {
		if data, err := os.ReadFile(bad.File); err == nil {
			os.WriteFile(filepath.Join(dir, "obligation.smt2"), data, 0o644)
		}
	}
	os.WriteFile(filepath.Join(dir, "model.txt"), []byte(bad.Result.Status+"\n"+bad.Result.Detail+"\n"+bad.Result.Output), 0o644)
	var md strings.Builder
	fmt.Fprintf(&md, "# Failed obligation\n\nproperty: %s\nobligation: %s\nkind: %s\nclause: %s\nsource: %s\nsolver result: %s (%s)\n\n",
		prop, g.name, bad.Kind, bad.Info, bad.Pos, bad.Result.Status, bad.Result.Detail)
	fmt.Fprintf(&md, "path instances: %d (%s)\n\nRe-run: `./check --replay %s`\n", len(g.obls), g.statusDetail(), dir)
	result := "no-failing-input-found"
	rd.note = "solver=" + bad.Result.Status
	if bad.Result.Status == "sat" {
		if ok, note := concreteReplay(dir, bad, progs); ok {
			rd.confirmed = true
			result = "confirmed"
			fmt.Fprintf(&md, "\nThe solver's model was turned into a concrete input and the violation was reproduced on the real code: %s\n", note)
		} else {
			fmt.Fprintf(&md, "\nModel available (model.txt) but no concrete replay on the real code: %s\n", note)
			rd.note += " replay=" + strings.ReplaceAll(note, " ", "_")
		}
	} else {
		fmt.Fprintf(&md, "\nThe solver gave no model (%s): the obligation was discharged on the unchanged tree and is not any more.\n", bad.Result.Status)
	}
	os.WriteFile(filepath.Join(dir, "REPLAY.md"), []byte(md.String()), 0o644)
	os.WriteFile(filepath.Join(dir, "result.txt"), []byte(result+"\n"), 0o644)
	return rd
}

func cmdReplay(args []string) int {
	if len(args) < 1 {
		fmt.Fprintln(os.Stderr, "usage: gvc replay <dir>")
		return 2
	}
	dir := args[0]
	data, err := os.ReadFile(filepath.Join(dir, "REPLAY.md"))
	if err != nil {
		fmt.Fprintln(os.Stderr, err)
		return 2
	}
	fmt.Print(string(data))
	if _, err := os.Stat(filepath.Join(dir, "replay_test.go")); err == nil {
		ok, out := runReplayTest(dir)
		fmt.Println(out)
		if ok {
			fmt.Println("REPLAY: violation reproduced on the current tree")
			return 1
		}
		fmt.Println("REPLAY: not reproduced on the current tree")
		return 0
	}
	// no concrete input: re-run the stored obligation
	f := filepath.Join(dir, "obligation.smt2")
	if _, err := os.Stat(f); err == nil {
		r := Solve(f, 60, nil)
		fmt.Printf("stored obligation: %s (%s)\n", r.Status, r.Detail)
		if r.Status != "unsat" {
			return 1
		}
	}
	return 0
}

func cmdSelftest(args []string) int { return selftest(args) }
