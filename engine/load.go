package main

import (
	"fmt"
	"go/token"
	"go/types"
	"os"
	"sort"
	"strings"
	"sync"

	"golang.org/x/tools/go/packages"
	"golang.org/x/tools/go/ssa"
	"golang.org/x/tools/go/ssa/ssautil"
)

const modPath = "github.com/emmansun/gmsm"

type Program struct {
	Fset  *token.FileSet
	Prog  *ssa.Program
	Pkgs  map[string]*ssa.Package // by import path
	PPkgs map[string]*packages.Package
	Tags  string
	// all functions by canonical name "pkgpath.(recv).name"
	funcs map[string]*ssa.Function

	globOnce sync.Once
	globMut  map[*ssa.Global]bool
	globInit map[*ssa.Global]bool
}

// LoadProgram loads the given package patterns of /repo's working tree (and their deps) into SSA.
func LoadProgram(repo string, tags string, patterns []string) (*Program, error) {
	cfg := &packages.Config{
		Mode:       packages.LoadAllSyntax,
		Dir:        repo,
		BuildFlags: []string{"-tags=" + tags},
		Env:        append(os.Environ(), "GOFLAGS=-mod=mod", "GOPROXY=off", "GOSUMDB=off", "GOTOOLCHAIN=local"),
	}
	pkgs, err := packages.Load(cfg, patterns...)
	if err != nil {
		return nil, err
	}
	var errs []string
	packages.Visit(pkgs, nil, func(p *packages.Package) {
		if strings.HasPrefix(p.PkgPath, modPath) {
			for _, e := range p.Errors {
				errs = append(errs, e.Error())
			}
		}
	})
	if len(errs) > 0 {
		return nil, fmt.Errorf("load errors:\n%s", strings.Join(errs, "\n"))
	}
	prog, _ := ssautil.AllPackages(pkgs, ssa.GlobalDebug|ssa.BareInits)
	prog.Build()
	p := &Program{Prog: prog, Pkgs: map[string]*ssa.Package{}, PPkgs: map[string]*packages.Package{}, Tags: tags, funcs: map[string]*ssa.Function{}}
	packages.Visit(pkgs, nil, func(pp *packages.Package) {
		p.PPkgs[pp.PkgPath] = pp
		if p.Fset == nil {
			p.Fset = pp.Fset
		}
	})
	for _, sp := range prog.AllPackages() {
		p.Pkgs[sp.Pkg.Path()] = sp
	}
	// canonical owner names for struct field heaps: the smallest name among the named types
	// sharing one underlying struct (deterministic, independent of verification order)
	ownerMu.Lock()
	for _, sp := range prog.AllPackages() {
		if !strings.HasPrefix(sp.Pkg.Path(), modPath) {
			continue
		}
		sc := sp.Pkg.Scope()
		for _, n := range sc.Names() {
			tn, ok := sc.Lookup(n).(*types.TypeName)
			if !ok {
				continue
			}
			if st, ok := tn.Type().Underlying().(*types.Struct); ok {
				name := typeName(tn.Type())
				if cur, ok := ownerCanon[st]; !ok || name < cur {
					ownerCanon[st] = name
				}
			}
		}
	}
	ownerMu.Unlock()
	all := ssautil.AllFunctions(prog)
	// methods of types that are never converted to an interface are not in AllFunctions
	for _, sp := range prog.AllPackages() {
		if !strings.HasPrefix(sp.Pkg.Path(), modPath) {
			continue
		}
		for _, m := range sp.Members {
			tm, ok := m.(*ssa.Type)
			if !ok {
				continue
			}
			for _, t := range []types.Type{tm.Type(), types.NewPointer(tm.Type())} {
				ms := prog.MethodSets.MethodSet(t)
				for i := 0; i < ms.Len(); i++ {
					if fn := prog.MethodValue(ms.At(i)); fn != nil {
						all[fn] = true
						for _, af := range fn.AnonFuncs {
							all[af] = true
						}
					}
				}
			}
		}
	}
	for fn := range all {
		if fn.Pkg == nil && fn.Synthetic != "" && fn.Parent() == nil {
			// wrappers, thunks
			continue
		}
		p.funcs[FuncKey(fn)] = fn
	}
	return p, nil
}

// FuncKey is the canonical contract name: "<pkgpath>.<relname>", relname as go/ssa prints it
// relative to the package, e.g. "github.com/emmansun/gmsm/padding.(pkcs7Padding).Unpad".
func FuncKey(fn *ssa.Function) string {
	pkg := fn.Package()
	if pkg == nil {
		if fn.Parent() != nil {
			return FuncKey(fn.Parent()) + "$" + strings.TrimPrefix(fn.Name(), fn.Parent().Name()+"$")
		}
		// methods of instantiated/external types
		if recv := fn.Signature.Recv(); recv != nil {
			if pk := recvPkg(recv.Type()); pk != nil {
				return pk.Path() + "." + fn.RelString(pk)
			}
		}
		return fn.String()
	}
	return pkg.Pkg.Path() + "." + fn.RelString(pkg.Pkg)
}

func recvPkg(t types.Type) *types.Package {
	if p, ok := t.(*types.Pointer); ok {
		t = p.Elem()
	}
	if n, ok := t.(*types.Named); ok {
		return n.Obj().Pkg()
	}
	return nil
}

func (p *Program) Func(key string) *ssa.Function { return p.funcs[key] }

func shortPkg(path string) string {
	if path == modPath {
		return "gmsm"
	}
	return strings.TrimPrefix(path, modPath+"/")
}

// ---------- loops

type Loop struct {
	Head   *ssa.BasicBlock
	Blocks map[*ssa.BasicBlock]bool // natural loop body including the head
	Ord    int                      // 1-based ordinal in block-index order of heads
}

// dominates reports whether a dominates b.
func dominates(a, b *ssa.BasicBlock) bool { return a.Dominates(b) }

func FindLoops(fn *ssa.Function) []*Loop {
	heads := map[*ssa.BasicBlock]*Loop{}
	for _, b := range fn.Blocks {
		for _, s := range b.Succs {
			if dominates(s, b) {
				// back edge b -> s
				l := heads[s]
				if l == nil {
					l = &Loop{Head: s, Blocks: map[*ssa.BasicBlock]bool{s: true}}
					heads[s] = l
				}
				// natural loop: nodes that reach b without passing through s
				stack := []*ssa.BasicBlock{b}
				for len(stack) > 0 {
					x := stack[len(stack)-1]
					stack = stack[:len(stack)-1]
					if l.Blocks[x] {
						continue
					}
					l.Blocks[x] = true
					stack = append(stack, x.Preds...)
				}
			}
		}
	}
	var ls []*Loop
	for _, l := range heads {
		ls = append(ls, l)
	}
	sort.Slice(ls, func(i, j int) bool { return ls[i].Head.Index < ls[j].Head.Index })
	// ordinal by source position of the loop head when available, else block index
	sort.SliceStable(ls, func(i, j int) bool { return loopPos(ls[i]) < loopPos(ls[j]) })
	for i, l := range ls {
		l.Ord = i + 1
	}
	return ls
}

func loopPos(l *Loop) token.Pos {
	// the smallest valid position of any instruction in the loop body
	var best token.Pos
	for b := range l.Blocks {
		for _, in := range b.Instrs {
			switch in.(type) {
			case *ssa.Phi, *ssa.DebugRef:
				continue
			}
			if p := in.Pos(); p.IsValid() && (best == 0 || p < best) {
				best = p
			}
		}
	}
	return best
}
