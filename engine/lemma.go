package main

import (
	"fmt"
	"strings"
)

func lemmaSort(s string) string {
	switch s {
	case "", "int":
		return SInt
	case "bool":
		return SBool
	case "arr":
		return SArrII
	case "bv8":
		return SBV(8)
	case "bv16":
		return SBV(16)
	case "bv32":
		return SBV(32)
	case "bv64":
		return SBV(64)
	case "bv128":
		return SBV(128)
	case "arr8":
		return SArr(SInt, SBV(8))
	case "arr32":
		return SArr(SInt, SBV(32))
	}
	return s
}

// lemmaTerm evaluates a lemma body with its variables bound to the given terms.
func (x *Exec) lemmaTerm(lm *LemmaDef, bind func(name, sort string) *Term) *Term {
	st := x.newState()
	st.frames = []*Frame{{env: nil, params: map[string]Value{}}}
	ctx := &SpecCtx{x: x, st: st, names: map[string]Value{}}
	if lm.Pkg != "" && x.prog != nil {
		if p := x.prog.Pkgs[lm.Pkg]; p != nil {
			ctx.pkg = p.Pkg
		}
	}
	for _, v := range lm.Vars {
		n, s, _ := strings.Cut(v, ":")
		ctx.names[n] = bind(n, lemmaSort(s))
	}
	return x.evalBool(ctx, lm.Body)
}

// lemmaObligations builds the proof obligations for the lemmas tagged with a property.
func lemmaObligations(db *ContractDB, prop string) (obls []*Obligation, err error) {
	defer func() {
		if r := recover(); r != nil {
			if e, ok := r.(specErr); ok {
				err = fmt.Errorf("lemma: %s", e.msg)
				return
			}
			panic(r)
		}
	}()
	for _, lm := range db.Lemmas {
		if !hasProp(lm.Properties, prop) {
			continue
		}
		x := NewExec(nil, db, nil, nil, "")
		pre := x.buildPrelude()
		mk := func(kind string, assume []*Term, goal *Term, raw string) {
			o := &Obligation{Name: "lemma:" + lm.Name + kind, Func: "lemma:" + lm.Name, Kind: "lemma", Assume: assume, Goal: goal,
				Bank: x.b, Info: lm.Name, Property: lm.Properties, chunks: pre, Prelude: raw, timeout: lm.Timeout}
			if x.usePow2 {
				o.Prelude = pow2Def() + o.Prelude
			}
			obls = append(obls, o)
		}
		var uses []*Term
		for _, u := range lm.Uses {
			ul := db.lemma(u)
			if ul == nil {
				return nil, fmt.Errorf("lemma %s uses unknown lemma %s", lm.Name, u)
			}
			uses = append(uses, x.lemmaAxiom(ul))
		}
		if lm.Raw != "" {
			// raw SMT-LIB: the text is a closed formula to be proved valid
			mk("", uses, nil, "(assert (not "+lm.Raw+"))\n")
			continue
		}
		if lm.Induct == "" {
			g := x.lemmaTerm(lm, func(n, s string) *Term { return x.b.Const("lv!"+n, s) })
			mk("", uses, g, "")
			continue
		}
		// induction on a natural-number variable: base k=0, step k -> k+1
		k := x.b.Const("lv!"+lm.Induct, SInt)
		base := x.lemmaTerm(lm, func(n, s string) *Term {
			if n == lm.Induct {
				return x.b.Int(0)
			}
			return x.b.Const("lv!"+n, s)
		})
		mk("/base", uses, base, "")
		// induction hypothesis: the statement for this k with the same values of the other
		// variables (weak form; "induct k strong" quantifies the other variables)
		var hyp *Term
		if lm.Strong {
			hyp = x.lemmaAxiomFixed(lm, lm.Induct, k)
		} else {
			hyp = x.lemmaTerm(lm, func(n, s string) *Term {
				if n == lm.Induct {
					return k
				}
				return x.b.Const("lv!"+n, s)
			})
		}
		step := x.lemmaTerm(lm, func(n, s string) *Term {
			if n == lm.Induct {
				return x.b.Add(k, x.b.Int(1))
			}
			return x.b.Const("lv!"+n, s)
		})
		mk("/step", append(append([]*Term{}, uses...), x.b.Le(x.b.Int(0), k), hyp), step, "")
	}
	return obls, nil
}

func (db *ContractDB) lemma(name string) *LemmaDef {
	for _, l := range db.Lemmas {
		if l.Name == name {
			return l
		}
	}
	return nil
}

// lemmaAxiom states a (separately proved) lemma as a universally quantified assumption.
func (x *Exec) lemmaAxiom(lm *LemmaDef) *Term {
	if lm.Raw != "" {
		specFail("raw lemma %s cannot be used as an axiom term", lm.Name)
	}
	var vars []*Term
	body := x.lemmaTerm(lm, func(n, s string) *Term {
		v := x.b.Var(fmt.Sprintf("%s!l%d", n, x.qcount()), s)
		vars = append(vars, v)
		return v
	})
	if lm.Induct != "" {
		// proved for naturals only
		for i, v := range lm.Vars {
			n, _, _ := strings.Cut(v, ":")
			if n == lm.Induct {
				body = x.b.Implies(x.b.Le(x.b.Int(0), vars[i]), body)
			}
		}
	}
	if len(vars) == 0 {
		return body
	}
	return x.b.Forall(vars, body)
}

func (x *Exec) lemmaAxiomFixed(lm *LemmaDef, fixed string, val *Term) *Term {
	var vars []*Term
	body := x.lemmaTerm(lm, func(n, s string) *Term {
		if n == fixed {
			return val
		}
		v := x.b.Var(fmt.Sprintf("%s!l%d", n, x.qcount()), s)
		vars = append(vars, v)
		return v
	})
	if len(vars) == 0 {
		return body
	}
	return x.b.Forall(vars, body)
}
