package main

// Path-based symbolic execution of go/ssa functions producing proof obligations.

import (
	"bytes"
	"fmt"
	"go/ast"
	"go/printer"
	"go/token"
	"go/types"
	"sort"
	"strings"
	"time"

	"golang.org/x/tools/go/ast/astutil"
	"golang.org/x/tools/go/ssa"
)

type subKey struct {
	obj int64
	key string
}

func cloneSubs(m map[subKey]int64) map[subKey]int64 {
	n := make(map[subKey]int64, len(m)+1)
	for k, v := range m {
		n[k] = v
	}
	return n
}
func cloneKinds(m map[int64]string) map[int64]string {
	n := make(map[int64]string, len(m)+1)
	for k, v := range m {
		n[k] = v
	}
	return n
}

type Snapshot struct {
	heaps map[string]*Term
	epoch int
}

func (st *State) snapshot() *Snapshot {
	sn := &Snapshot{heaps: make(map[string]*Term, len(st.heaps)), epoch: st.epoch}
	for k, v := range st.heaps {
		sn.heaps[k] = v
	}
	return sn
}

type activeLoop struct {
	measure *Term
	dry     bool
	bad     map[*ssa.Phi]bool
	changed *bool
}

func refObj(v Value) *Term {
	switch r := v.(type) {
	case SliceV:
		return r.Obj
	case PtrV:
		if r.FieldOf == nil {
			return r.Obj
		}
	}
	return nil
}

type Frame struct {
	fn       *ssa.Function
	env      map[ssa.Value]Value
	block    *ssa.BasicBlock
	prev     *ssa.BasicBlock
	ip       int
	call     ssa.CallInstruction // in the caller (nil for the top frame)
	pre      *Snapshot
	active   map[*ssa.BasicBlock]*activeLoop
	visits   map[*ssa.BasicBlock]int
	params   map[string]Value
	lets     map[string]Value
	defers   []deferred
	contract *Contract
	inlName  string
	afterCN  *callName // clauses anchored after the (inlined) call that created this frame
	callArgs []Value
}

type deferred struct {
	call *ssa.Defer
	args []Value
	fn   Value
}

type State struct {
	frames  []*Frame
	heaps   map[string]*Term
	dirty   map[string]bool
	pc      []*Term
	pcset   map[*Term]bool
	nextObj *int64 // shared counter: object ids are unique across all paths
	subs    map[subKey]int64
	kinds   map[int64]string
	dead    bool
	// dry-run recording of havoc targets
	rec       *recorder
	dry       *Loop // non-nil: dry run of this loop (stop when leaving it)
	dryDepth  int
	loopDepth int
	epoch     int // bumped by havocAll: heaps first touched later get fresh names
	bank      *TermBank
	sink      *State // shadow states forward assumptions to the real state
	mute      bool   // do not record facts (terms with bound variables)
}

type recorder struct {
	targets    map[string]map[*Term]bool // heap -> obj terms
	nonpos     map[string]map[*Term]bool // heap -> obj terms known to be nil/fresh (<= 0) when written
	negonly    map[string]bool           // heaps whose loop-variant targets are all nil/fresh objects
	freshWhole map[string]bool           // heaps havocked by a callee that writes only fresh memory
	whole      map[string]bool
	all        bool
	phiBad     map[*ssa.Phi]bool // slice/pointer phis whose object changes around the loop
}

func (st *State) frameTop() *Frame    { return st.frames[len(st.frames)-1] }
func (st *State) frameBottom() *Frame { return st.frames[0] }
func (st *State) newObjID() int64 {
	*st.nextObj--
	return *st.nextObj
}

func (st *State) assume(t *Term) {
	if st.mute || t.bound {
		return
	}
	if st.sink != nil {
		st.sink.assume(t)
		return
	}
	if t.IsTrue() || st.pcset[t] {
		return
	}
	if t.Op == "and" {
		for _, a := range t.Args {
			st.assume(a)
		}
		return
	}
	st.pcset[t] = true
	st.pc = append(st.pc, t)
	if t.IsFalse() {
		st.dead = true
	}
}

// assumeDef assumes a definitional fact about a fresh array (always satisfiable); such facts
// are left out of the satisfiability (cover) checks, where quantifiers only slow the solver.
func (st *State) assumeDef(x *Exec, t *Term) {
	x.defFacts[t] = true
	st.assume(t)
}

func (st *State) fork() *State {
	n := &State{heaps: make(map[string]*Term, len(st.heaps)), dirty: make(map[string]bool, len(st.dirty)),
		pc: append([]*Term(nil), st.pc...), pcset: make(map[*Term]bool, len(st.pcset)),
		nextObj: st.nextObj, subs: st.subs, kinds: st.kinds, rec: st.rec, bank: st.bank, dry: st.dry, dryDepth: st.dryDepth, loopDepth: st.loopDepth, epoch: st.epoch}
	for k, v := range st.heaps {
		n.heaps[k] = v
	}
	for k, v := range st.dirty {
		n.dirty[k] = v
	}
	for k, v := range st.pcset {
		n.pcset[k] = v
	}
	for _, f := range st.frames {
		nf := *f
		nf.env = make(map[ssa.Value]Value, len(f.env))
		for k, v := range f.env {
			nf.env[k] = v
		}
		nf.active = make(map[*ssa.BasicBlock]*activeLoop, len(f.active))
		for k, v := range f.active {
			nf.active[k] = v
		}
		nf.visits = make(map[*ssa.BasicBlock]int, len(f.visits))
		for k, v := range f.visits {
			nf.visits[k] = v
		}
		nf.defers = append([]deferred(nil), f.defers...)
		n.frames = append(n.frames, &nf)
	}
	return n
}

type Exec struct {
	prog     *Program
	db       *ContractDB
	b        *TermBank
	mode     Mode
	fn       *ssa.Function
	contract *Contract
	cfg      string
	cfgVals  map[string]int64

	obls      []*Obligation
	heapSorts map[string]string
	subFuncs  map[string]bool
	elemFuncs map[string]bool
	typeIDs   map[string]int64
	typeByID  map[int64]types.Type
	loopCache map[*ssa.Function][]*Loop
	ordCache  map[*ssa.Function]map[ssa.Instruction]string
	callOrd   map[*ssa.Function]map[ssa.Instruction]callName

	paths, maxPaths int
	returns         []*State // states at top-level return (for cover checks)
	trusted         map[string]bool
	havocked        map[string]bool
	inlined         map[string]bool
	notes           map[string]bool
	work            []*State
	errs            []string
	discard         bool // dry run: obligations are not recorded
	unrollBudget    int
	globalsSeen     map[string]*Term
	epoch           int
	usePow2         bool
	globLen         map[*ssa.Global]int64
	globErr         map[*ssa.Global]bool
	deadline        time.Time
	noObjSign       bool    // symbolic values created now may denote fresh (negative-id) objects
	allocFloor      int64   // ... but only those allocated so far: ids >= this value
	lemmaFacts      []*Term // instances of proved lemmas met while instantiating another lemma
	curCall         ssa.Value
	curRet          []Value
	returnSites     map[*ssa.Return][]*State
	nilFreshFork    bool
	curArgs         []Value
	assertFired     map[string]bool
	usedLemmas      map[string]bool
	defFacts        map[*Term]bool
	entry           map[string]Value
	qn              int
	usedSpecFns     map[string]bool

	useBitAxioms map[string]bool
	panics       []*State
}

type callName struct {
	name string
	ord  int
}

func NewExec(prog *Program, db *ContractDB, fn *ssa.Function, c *Contract, cfg string) *Exec {
	x := &Exec{prog: prog, db: db, b: NewBank(), fn: fn, contract: c, cfg: cfg,
		heapSorts: map[string]string{}, subFuncs: map[string]bool{}, elemFuncs: map[string]bool{},
		typeIDs: map[string]int64{}, typeByID: map[int64]types.Type{}, loopCache: map[*ssa.Function][]*Loop{},
		ordCache: map[*ssa.Function]map[ssa.Instruction]string{}, callOrd: map[*ssa.Function]map[ssa.Instruction]callName{},
		maxPaths: 4096, trusted: map[string]bool{}, havocked: map[string]bool{}, inlined: map[string]bool{}, notes: map[string]bool{},
		unrollBudget: 300, cfgVals: map[string]int64{}, globalsSeen: map[string]*Term{}, usedLemmas: map[string]bool{}, globLen: map[*ssa.Global]int64{}, globErr: map[*ssa.Global]bool{}, assertFired: map[string]bool{}, returnSites: map[*ssa.Return][]*State{}, useBitAxioms: map[string]bool{}, usedSpecFns: map[string]bool{}, defFacts: map[*Term]bool{}}
	if c != nil && c.Mode == "bits" {
		x.mode = ModeBits
	}
	if c != nil && c.Paths > 0 {
		x.maxPaths = c.Paths
	}
	if c != nil && c.Unroll > 0 {
		x.unrollBudget = c.Unroll
	}
	return x
}

func (x *Exec) loopsOf(fn *ssa.Function) []*Loop {
	if l, ok := x.loopCache[fn]; ok {
		return l
	}
	l := FindLoops(fn)
	x.loopCache[fn] = l
	return l
}

func (x *Exec) loopAt(fn *ssa.Function, b *ssa.BasicBlock) *Loop {
	for _, l := range x.loopsOf(fn) {
		if l.Head == b {
			return l
		}
	}
	return nil
}

// ---------- obligation naming

func (x *Exec) funcLabel(fn *ssa.Function) string {
	k := FuncKey(fn)
	return shortPkg(k)
}

func (x *Exec) srcText(fn *ssa.Function, pos token.Pos, want string) string {
	if !pos.IsValid() || fn.Pkg == nil {
		return ""
	}
	pp := x.prog.PPkgs[fn.Pkg.Pkg.Path()]
	if pp == nil {
		return ""
	}
	for _, f := range pp.Syntax {
		if f.Pos() <= pos && pos < f.End() {
			path, _ := astutil.PathEnclosingInterval(f, pos, pos)
			for _, n := range path {
				ok := false
				switch e := n.(type) {
				case *ast.IndexExpr:
					ok = want == "index" && e.Lbrack == pos
				case *ast.SliceExpr:
					ok = want == "slice" && e.Lbrack == pos
				case *ast.BinaryExpr:
					ok = want == "binop" && e.OpPos == pos
				case *ast.CallExpr:
					ok = want == "call" && (e.Lparen == pos || e.Pos() == pos)
				case *ast.StarExpr:
					ok = want == "deref" && e.Star == pos
				case *ast.SelectorExpr:
					ok = want == "sel" && e.Sel.Pos() == pos
				case *ast.TypeAssertExpr:
					ok = want == "typeassert" && e.Lparen == pos
				case *ast.RangeStmt:
					if want == "index" && e.For == pos {
						var buf bytes.Buffer
						printer.Fprint(&buf, x.prog.Fset, e.X)
						return "range " + oneLine(buf.String())
					}
				}
				if ok {
					var buf bytes.Buffer
					printer.Fprint(&buf, x.prog.Fset, n)
					return oneLine(buf.String())
				}
			}
		}
	}
	return ""
}

func oneLine(s string) string {
	s = strings.Join(strings.Fields(s), " ")
	if len(s) > 60 {
		s = s[:60]
	}
	return s
}

// oblName builds "<func>/<kind>:<detail>#<n>@cfg" with n the ordinal of instr among
// instructions of fn with the same kind and detail.
func (x *Exec) oblName(st *State, kind, detail string, instr ssa.Instruction) string {
	fr := st.frameTop()
	fn := fr.fn
	base := kind
	if detail != "" {
		base += ":" + detail
	}
	if instr != nil {
		m := x.ordCache[fn]
		if m == nil {
			m = map[ssa.Instruction]string{}
			x.ordCache[fn] = m
		}
		key, ok := m[instr]
		if !ok || !strings.HasPrefix(key, base+"#") {
			// ordinal = number of earlier instructions (block order) that produced the same base
			cnt := x.ordCounter(fn, base, instr)
			key = fmt.Sprintf("%s#%d", base, cnt)
		}
		base = key
	}
	name := x.funcLabel(x.fn)
	if fn != x.fn {
		name += "/inl:" + fn.Name()
	}
	name += "/" + base
	if x.cfg != "" {
		name += "@" + x.cfg
	}
	return name
}

func (x *Exec) ordCounter(fn *ssa.Function, base string, instr ssa.Instruction) int {
	// stable ordinal: position of instr in the list of instructions registered under base,
	// ordered by (block index, instruction index)
	pos := func(in ssa.Instruction) int {
		b := in.Block()
		for i, y := range b.Instrs {
			if y == in {
				return b.Index*100000 + i
			}
		}
		return b.Index * 100000
	}
	// count instructions in the function before instr whose source text/kind would give the
	// same base: approximated by counting same-typed instructions with identical detail text.
	n := 1
	p := pos(instr)
	for _, blk := range fn.Blocks {
		for _, in := range blk.Instrs {
			if in == instr || pos(in) >= p {
				continue
			}
			if x.baseOf(fn, in) == base {
				n++
			}
		}
	}
	return n
}

// baseOf recomputes the kind:detail label an instruction would get for its primary obligation.
func (x *Exec) baseOf(fn *ssa.Function, in ssa.Instruction) string {
	switch v := in.(type) {
	case *ssa.IndexAddr:
		return "index:" + x.detailOr(fn, v.Pos(), "index", v.X.Name()+"["+v.Index.Name()+"]")
	case *ssa.Index:
		return "index:" + x.detailOr(fn, v.Pos(), "index", v.X.Name()+"["+v.Index.Name()+"]")
	case *ssa.Slice:
		return "slice:" + x.detailOr(fn, v.Pos(), "slice", v.X.Name()+"[:]")
	}
	return ""
}

func (x *Exec) detailOr(fn *ssa.Function, pos token.Pos, want, alt string) string {
	if s := x.srcText(fn, pos, want); s != "" {
		return s
	}
	return alt
}

func (x *Exec) addObl(st *State, kind, detail string, instr ssa.Instruction, goal *Term, info string) {
	if x.discard || st.dead {
		return
	}
	name := x.oblName(st, kind, detail, instr)
	pos := ""
	if instr != nil && instr.Pos().IsValid() {
		p := x.prog.Fset.Position(instr.Pos())
		pos = fmt.Sprintf("%s:%d", strings.TrimPrefix(p.Filename, "/repo/"), p.Line)
	}
	o := &Obligation{Name: name, Func: x.funcLabel(x.fn), Kind: kind, Assume: append([]*Term(nil), st.pc...), Goal: goal,
		Bank: x.b, Pos: pos, Info: info, X: x}
	if x.contract != nil {
		o.Property = x.contract.Properties
	}
	x.obls = append(x.obls, o)
}

// check adds an obligation and then assumes the goal on the continuing path (the failing
// case is reported once; execution continues as if the check passed).
func (x *Exec) check(st *State, kind, detail string, instr ssa.Instruction, goal *Term, info string) {
	if goal.IsTrue() {
		x.addObl(st, kind, detail, instr, goal, info)
		return
	}
	x.addObl(st, kind, detail, instr, goal, info)
	st.assume(goal)
}

// ---------- running

func (x *Exec) fail(format string, a ...interface{}) {
	x.errs = append(x.errs, fmt.Sprintf(format, a...))
}

func (x *Exec) newState() *State {
	var ctr int64
	return &State{heaps: map[string]*Term{}, dirty: map[string]bool{}, pcset: map[*Term]bool{}, nextObj: &ctr,
		subs: map[subKey]int64{}, kinds: map[int64]string{}, bank: x.b}
}

func (x *Exec) pushFrame(st *State, fn *ssa.Function, args []Value, call ssa.CallInstruction, bindings []Value) *Frame {
	fr := &Frame{fn: fn, env: map[ssa.Value]Value{}, call: call, active: map[*ssa.BasicBlock]*activeLoop{}, visits: map[*ssa.BasicBlock]int{}, params: map[string]Value{}}
	for i, p := range fn.Params {
		fr.env[p] = args[i]
		fr.params[p.Name()] = args[i]
	}
	for i, fv := range fn.FreeVars {
		fr.env[fv] = bindings[i]
	}
	if len(fn.Blocks) > 0 {
		fr.block = fn.Blocks[0]
	}
	fr.contract = x.db.Funcs[FuncKey(fn)]
	st.frames = append(st.frames, fr)
	return fr
}

// run executes all paths from the work list.
func (x *Exec) run() {
	for len(x.work) > 0 {
		st := x.work[len(x.work)-1]
		x.work = x.work[:len(x.work)-1]
		x.runPath(st)
		if len(x.errs) > 0 {
			return
		}
	}
}

func (x *Exec) runPath(st *State) {
	defer func() {
		if r := recover(); r != nil {
			if u, ok := r.(unsupportedErr); ok {
				fr := st.frameTop()
				where := ""
				if fr.block != nil && fr.ip-1 >= 0 && fr.ip-1 < len(fr.block.Instrs) {
					in := fr.block.Instrs[fr.ip-1]
					where = fmt.Sprintf(" at %s (%s)", x.prog.Fset.Position(in.Pos()), in.String())
				}
				x.fail("%s: %s%s", FuncKey(fr.fn), u.Error(), where)
				return
			}
			panic(r)
		}
	}()
	for !st.dead {
		fr := st.frameTop()
		if fr.block == nil {
			x.fail("%s: function has no body", FuncKey(fr.fn))
			return
		}
		if fr.ip >= len(fr.block.Instrs) {
			x.fail("%s: fell off block %d", FuncKey(fr.fn), fr.block.Index)
			return
		}
		in := fr.block.Instrs[fr.ip]
		fr.ip++
		cont := x.step(st, in)
		if !cont {
			return
		}
	}
}

func (x *Exec) countPath() bool {
	x.paths++
	if !x.deadline.IsZero() && time.Now().After(x.deadline) {
		x.fail("%s: symbolic execution exceeded its time budget (path explosion?)", FuncKey(x.fn))
		return false
	}
	if x.paths > x.maxPaths {
		x.fail("%s: path cap %d exceeded", FuncKey(x.fn), x.maxPaths)
		return false
	}
	return true
}

// enterBlock moves the top frame to block b, evaluating phis; handles loop heads.
// Returns false if the path ends here.
func (x *Exec) enterBlock(st *State, b *ssa.BasicBlock) bool {
	fr := st.frameTop()
	from := fr.block
	if st.dry != nil && len(st.frames) == st.dryDepth && !st.dry.Blocks[b] {
		return false // dry run: the path leaves the loop
	}
	fr.prev = from
	fr.block = b
	fr.ip = 0
	// leaving loops: drop active entries whose body does not contain b
	for h := range fr.active {
		if l := x.loopAt(fr.fn, h); l != nil && !l.Blocks[b] {
			delete(fr.active, h)
		}
	}
	// phis
	edge := -1
	for i, p := range b.Preds {
		if p == from {
			edge = i
		}
	}
	var phis []*ssa.Phi
	for _, in := range b.Instrs {
		if p, ok := in.(*ssa.Phi); ok {
			phis = append(phis, p)
			fr.ip++
		} else if _, ok := in.(*ssa.DebugRef); ok {
			break
		} else {
			break
		}
	}
	if len(phis) > 0 && edge < 0 {
		x.fail("%s: no edge into block %d", FuncKey(fr.fn), b.Index)
		return false
	}
	vals := make([]Value, len(phis))
	for i, p := range phis {
		vals[i] = x.val(st, p.Edges[edge])
	}
	if al := fr.active[b]; al != nil && al.dry && st.dry != nil && st.dry.Head == b && len(st.frames) == st.dryDepth {
		// dry run reached the back edge: do slice/pointer phis keep their object?
		for i, p := range phis {
			if al.bad[p] {
				continue
			}
			if o, n := refObj(fr.env[p]), refObj(vals[i]); o != nil && n != nil && o != n {
				al.bad[p] = true
				*al.changed = true
			}
		}
		return false
	}
	for i, p := range phis {
		fr.env[p] = vals[i]
	}
	loop := x.loopAt(fr.fn, b)
	if loop == nil {
		return true
	}
	var spec *LoopSpec
	if fr.contract != nil {
		spec = fr.contract.Loops[loop.Ord]
	}
	if spec == nil || len(spec.Invariants) == 0 {
		// unrolled loop
		fr.visits[b]++
		budget := x.unrollBudget
		if spec != nil && spec.Unroll > 0 {
			budget = spec.Unroll + 1
		}
		if fr.visits[b] > budget {
			x.fail("%s: loop %d needs an invariant (not exhausted after %d iterations)", FuncKey(fr.fn), loop.Ord, budget)
			return false
		}
		return true
	}
	if al := fr.active[b]; al != nil && from != nil && loop.Blocks[from] {
		// back edge: invariant preserved
		ctx := x.specCtx(st, fr)
		for i, inv := range spec.Invariants {
			g := x.evalBool(ctx, inv)
			x.addObl(st, fmt.Sprintf("loop %d:keep%d", loop.Ord, i+1), "", nil, g, inv.String())
		}
		if spec.Decreases != nil && al.measure != nil {
			m1 := x.evalInt(ctx, spec.Decreases)
			x.addObl(st, fmt.Sprintf("loop %d:dec", loop.Ord), "", nil, x.b.And(x.b.Lt(m1, al.measure), x.b.Le(x.b.Int(0), al.measure)), spec.Decreases.String())
		}
		return false
	}
	// loop entry
	ctx := x.specCtx(st, fr)
	if len(spec.Lets) > 0 {
		// names bound to values at loop entry (constants of the loop)
		nl := map[string]Value{}
		for k, v := range fr.lets {
			nl[k] = v
		}
		for _, l := range spec.Lets {
			v := x.eval(ctx, l.E)
			nl[l.Name] = v
			ctx.names[l.Name] = v
		}
		fr.lets = nl
	}
	for i, inv := range spec.Invariants {
		g := x.evalBool(ctx, inv)
		x.check(st, fmt.Sprintf("loop %d:init%d", loop.Ord, i+1), "", nil, g, inv.String())
	}
	// discover havoc targets by a dry run of the body
	rec := x.dryRunLoop(st, loop, spec, phis)
	x.havocLoop(st, fr, loop, phis, rec)
	ctx = x.specCtx(st, fr)
	var invs []*Term
	for _, inv := range spec.Invariants {
		invs = append(invs, x.evalBool(ctx, inv))
	}
	for _, t := range invs {
		st.assume(t)
	}
	// literal bounds on the loop's own (fresh) variables hold wherever those variables exist
	fresh := map[*Term]bool{}
	for _, p := range phis {
		if t, ok := fr.env[p].(*Term); ok && t.Op == "const" {
			fresh[t] = true
		}
	}
	for _, t := range invs {
		x.learnBoundsOf(t, fresh)
	}
	al := &activeLoop{}
	if spec.Decreases != nil {
		al.measure = x.evalInt(ctx, spec.Decreases)
	}
	fr.active[b] = al
	return true
}

// havocLoop replaces the loop's phis and the memory it may write by fresh values.
func (x *Exec) havocLoop(st *State, fr *Frame, loop *Loop, phis []*ssa.Phi, rec *recorder) {
	for _, p := range phis {
		var facts []*Term
		name := p.Comment
		if name == "" {
			name = p.Name()
		}
		x.noObjSign = true
		x.allocFloor = -(1 << 60) // loop-carried references may denote objects allocated in earlier iterations
		nv := x.symbolic(p.Type(), fmt.Sprintf("%s@L%d", name, loop.Ord), &facts)
		x.noObjSign = false
		if rec != nil && !rec.phiBad[p] {
			nv = keepObj(fr.env[p], nv)
		}
		fr.env[p] = nv
		for _, f := range facts {
			st.assume(f)
		}
	}
	if rec == nil {
		return
	}
	if rec.all {
		x.havocAll(st)
		return
	}
	var names []string
	for h := range rec.targets {
		names = append(names, h)
	}
	for h := range rec.whole {
		if _, ok := rec.targets[h]; !ok {
			names = append(names, h)
		}
	}
	sort.Strings(names)
	for _, h := range names {
		srt := x.heapSorts[h]
		cur := st.heap(x, h, srt)
		if rec.whole[h] {
			nh := x.b.Fresh(h+"@loop", srt)
			if rec.negonly[h] {
				// only nil/fresh objects are written with loop-variant addresses: entry memory keeps its value
				r := x.b.Var("r!lf", SInt)
				es := arrElem(srt)
				st.assumeDef(x, x.b.Forall([]*Term{r}, x.b.Implies(x.b.Lt(x.b.Int(0), r),
					x.b.Eq(x.b.mk("select", es, "", nil, nh, r), x.b.mk("select", es, "", nil, cur, r)))))
				// invariant targets (possibly entry objects) are havocked on top
				var objs []*Term
				for o := range rec.targets[h] {
					objs = append(objs, o)
				}
				sort.Slice(objs, func(i, j int) bool { return objs[i].id < objs[j].id })
				for _, o := range objs {
					nh = x.b.Store(nh, o, x.b.Fresh(h+"@loopobj", arrElem(srt)))
				}
			}
			st.setHeap(h, nh, nil)
			continue
		}
		var objs []*Term
		for o := range rec.targets[h] {
			objs = append(objs, o)
		}
		sort.Slice(objs, func(i, j int) bool { return objs[i].id < objs[j].id })
		for _, o := range objs {
			cur = x.b.Store(cur, o, x.b.Fresh(h+"@loopobj", arrElem(srt)))
			st.record(h, o)
		}
		st.heaps[h] = cur
		st.dirty[h] = true
	}
}

func (st *State) record(heap string, obj *Term) {
	if st.rec == nil {
		return
	}
	if obj == nil {
		st.rec.whole[heap] = true
		return
	}
	m := st.rec.targets[heap]
	if m == nil {
		m = map[*Term]bool{}
		st.rec.targets[heap] = m
	}
	m[obj] = true
	// is the object known (syntactically) to be nil or freshly allocated at this point?
	np := obj.Op == "int" && obj.Val.Sign() <= 0
	if !np && st.bank != nil {
		b := st.bank
		if le := b.Le(obj, b.Int(0)); le.IsTrue() || st.pcset[le] {
			np = true
		} else if lt := b.Lt(obj, b.Int(0)); lt.IsTrue() || st.pcset[lt] {
			np = true
		}
	}
	if st.rec.nonpos[heap] == nil {
		st.rec.nonpos[heap] = map[*Term]bool{}
	}
	if np {
		if _, seen := st.rec.nonpos[heap][obj]; !seen {
			st.rec.nonpos[heap][obj] = true
		}
	} else {
		st.rec.nonpos[heap][obj] = false
	}
}

func (x *Exec) havocAll(st *State) {
	var names []string
	for h := range x.heapSorts {
		names = append(names, h)
	}
	sort.Strings(names)
	for _, h := range names {
		st.heaps[h] = x.b.Fresh(h+"@havoc", x.heapSorts[h])
		st.dirty[h] = true
	}
	if st.rec != nil {
		st.rec.all = true
	}
	st.heapsAllHavoc(x)
}

func (st *State) heapsAllHavoc(x *Exec) {
	// heaps first touched after a full havoc must not be identified with their entry versions
	x.epoch++
	st.epoch = x.epoch
}
