package main

import (
	"fmt"
	"go/ast"
	"go/constant"
	"go/token"
	"go/types"
	"math/big"
	"strings"

	"golang.org/x/tools/go/ssa"
)

// val evaluates an SSA value in the top frame.
func (x *Exec) val(st *State, v ssa.Value) Value {
	fr := st.frameTop()
	switch c := v.(type) {
	case *ssa.Const:
		return x.constVal(st, c)
	case *ssa.Global:
		return x.globalPtr(c)
	case *ssa.Function:
		return FuncV{Fn: c}
	case *ssa.Builtin:
		return FuncV{Builtin: c}
	}
	if r, ok := fr.env[v]; ok {
		return r
	}
	panic(unsupported(fmt.Sprintf("value %s (%T) not available", v.Name(), v)))
}

func (x *Exec) globalPtr(g *ssa.Global) PtrV {
	name := "glob:" + shortPkg(g.Pkg.Pkg.Path()) + "." + g.Name()
	o := x.b.Const(name, SInt)
	x.globalsSeen[name] = o
	x.b.SetBounds(o, big.NewInt(1), nil)
	elem := g.Type().(*types.Pointer).Elem()
	return PtrV{Obj: o, Off: x.b.Int(0), Elem: elem}
}

func (x *Exec) constVal(st *State, c *ssa.Const) Value {
	t := c.Type()
	if c.Value == nil {
		return x.zero(t)
	}
	switch u := t.Underlying().(type) {
	case *types.Basic:
		switch {
		case u.Info()&types.IsBoolean != 0:
			return x.b.Bool(constant.BoolVal(c.Value))
		case u.Info()&types.IsString != 0:
			s := constant.StringVal(c.Value)
			return StringV{Len: x.b.Int(int64(len(s))), Lit: &s}
		case u.Info()&types.IsInteger != 0:
			bi, ok := new(big.Int).SetString(c.Value.ExactString(), 10)
			if !ok {
				if i, ok2 := constant.Int64Val(constant.ToInt(c.Value)); ok2 {
					bi = big.NewInt(i)
				} else {
					panic(unsupported("integer constant " + c.Value.String()))
				}
			}
			s := x.scalarSort(t)
			if s == SInt {
				return x.b.IntB(bi)
			}
			return x.b.BV(bi, bvWidth(s))
		case u.Info()&types.IsFloat != 0, u.Info()&types.IsComplex != 0:
			return OpaqueV{T: t, ID: x.b.Int(0)}
		}
	}
	panic(unsupported("constant of type " + t.String()))
}

func (x *Exec) term(st *State, v ssa.Value) *Term {
	r := x.val(st, v)
	t, ok := r.(*Term)
	if !ok {
		panic(unsupported(fmt.Sprintf("scalar expected for %s, got %T", v.Name(), r)))
	}
	return t
}

// step executes one instruction; returns false when the path ends.
func (x *Exec) step(st *State, in ssa.Instruction) bool {
	fr := st.frameTop()
	b := x.b
	switch v := in.(type) {
	case *ssa.DebugRef:
		return true
	case *ssa.Phi:
		return true // handled in enterBlock
	case *ssa.Jump:
		return x.enterBlock(st, fr.block.Succs[0])
	case *ssa.If:
		c := x.term(st, v.Cond)
		tb, fb := fr.block.Succs[0], fr.block.Succs[1]
		if c.IsTrue() {
			return x.enterBlock(st, tb)
		}
		if c.IsFalse() {
			return x.enterBlock(st, fb)
		}
		if !x.countPath() {
			return false
		}
		other := st.fork()
		other.assume(b.Not(c))
		if !other.dead {
			if x.enterBlockQ(other, fb) {
				x.work = append(x.work, other)
			}
		}
		st.assume(c)
		if st.dead {
			return false
		}
		return x.enterBlock(st, tb)
	case *ssa.Return:
		return x.doReturn(st, v)
	case *ssa.Panic:
		x.doPanic(st, v)
		return false
	case *ssa.RunDefers:
		if len(fr.defers) > 0 {
			// run the most recently deferred call by inlining it, then come back to this
			// instruction for the next one (deferred calls with results or recover are not modelled)
			d := fr.defers[len(fr.defers)-1]
			fr.defers = fr.defers[:len(fr.defers)-1]
			fv, ok := d.fn.(FuncV)
			if !ok || fv.Fn == nil || len(fv.Fn.Blocks) == 0 {
				panic(unsupported("deferred call of a function without body"))
			}
			fr.ip--
			x.inlined[shortPkg(FuncKey(fv.Fn))] = true
			x.pushFrame(st, fv.Fn, d.args, nil, fv.Bindings)
			return true
		}
		return true
	case *ssa.Defer:
		c := v.Common()
		if c.IsInvoke() {
			panic(unsupported("deferred interface method call"))
		}
		var args []Value
		for _, a := range c.Args {
			args = append(args, x.val(st, a))
		}
		fr.defers = append(append([]deferred(nil), fr.defers...), deferred{call: v, args: args, fn: x.val(st, c.Value)})
		return true
	case *ssa.Go:
		panic(unsupported("go statement"))
	case *ssa.Select:
		panic(unsupported("select"))
	case *ssa.Send:
		panic(unsupported("channel send"))
	case *ssa.MakeChan:
		panic(unsupported("make(chan)"))

	case *ssa.Alloc:
		fr.env[v] = x.alloc(st, v.Type().(*types.Pointer).Elem())
		return true
	case *ssa.Store:
		p := x.asPtr(x.val(st, v.Addr))
		x.nilCheck(st, p, in, "store")
		x.recordStore(st, p)
		x.store(st, p, x.coerce(st, x.val(st, v.Val), p.Elem))
		return true
	case *ssa.UnOp:
		fr.env[v] = x.unop(st, v)
		return true
	case *ssa.BinOp:
		fr.env[v] = x.binop(st, v)
		return true
	case *ssa.Convert:
		fr.env[v] = x.convert(st, x.val(st, v.X), v.X.Type(), v.Type(), in)
		return true
	case *ssa.ChangeType:
		fr.env[v] = x.retype(x.val(st, v.X), v.Type())
		return true
	case *ssa.MultiConvert:
		fr.env[v] = x.convert(st, x.val(st, v.X), v.X.Type(), v.Type(), in)
		return true
	case *ssa.FieldAddr:
		p := x.asPtr(x.val(st, v.X))
		x.nilCheck(st, p, in, "field "+fieldName(p.Elem, v.Field))
		fr.env[v] = x.fieldAddr(st, p, v.Field)
		return true
	case *ssa.Field:
		sv, ok := x.val(st, v.X).(StructV)
		if !ok {
			panic(unsupported("Field of non-struct value"))
		}
		fr.env[v] = sv.Fields[v.Field]
		return true
	case *ssa.IndexAddr:
		fr.env[v] = x.indexAddr(st, v)
		return true
	case *ssa.Index:
		fr.env[v] = x.index(st, v)
		return true
	case *ssa.Slice:
		fr.env[v] = x.slice(st, v)
		return true
	case *ssa.SliceToArrayPointer:
		sv := x.val(st, v.X).(SliceV)
		at := v.Type().(*types.Pointer).Elem().Underlying().(*types.Array)
		x.check(st, "conv", x.detailOr(fr.fn, v.Pos(), "call", "slice->array"), in, b.Le(b.Int(at.Len()), sv.Len), "slice to array pointer: len >= N")
		fr.env[v] = PtrV{Obj: sv.Obj, Off: sv.Off, Elem: v.Type().(*types.Pointer).Elem()}
		return true
	case *ssa.MakeSlice:
		fr.env[v] = x.makeSlice(st, v)
		return true
	case *ssa.MakeInterface:
		cv := x.val(st, v.X)
		fr.env[v] = IfaceV{Typ: x.typeID(v.X.Type()), Val: x.ifacePayload(st, cv), Dyn: v.X.Type(), Concrete: cv, T: v.Type()}
		return true
	case *ssa.ChangeInterface:
		iv := x.val(st, v.X).(IfaceV)
		iv.T = v.Type()
		fr.env[v] = iv
		return true
	case *ssa.TypeAssert:
		fr.env[v] = x.typeAssert(st, v)
		return true
	case *ssa.Extract:
		tv := x.val(st, v.Tuple).(TupleV)
		fr.env[v] = tv[v.Index]
		return true
	case *ssa.MakeClosure:
		var binds []Value
		for _, bv := range v.Bindings {
			binds = append(binds, x.val(st, bv))
		}
		fr.env[v] = FuncV{Fn: v.Fn.(*ssa.Function), Bindings: binds}
		return true
	case *ssa.MakeMap:
		fr.env[v] = MapV{ID: b.Int(st.newObjID())}
		return true
	case *ssa.MapUpdate:
		// maps are opaque: updates are not tracked (lookups are unconstrained)
		return true
	case *ssa.Lookup:
		fr.env[v] = x.lookup(st, v)
		return true
	case *ssa.Range:
		switch v.X.Type().Underlying().(type) {
		case *types.Map:
			fr.env[v] = OpaqueV{T: v.Type(), ID: b.Fresh("mapiter", SInt)}
		default:
			fr.env[v] = OpaqueV{T: v.Type(), ID: b.Fresh("striter", SInt)}
		}
		return true
	case *ssa.Next:
		// iteration order and contents are unconstrained
		var facts []*Term
		tv := TupleV{b.Fresh("next.ok", SBool)}
		tt := v.Type().(*types.Tuple)
		for i := 1; i < tt.Len(); i++ {
			if bt, ok := tt.At(i).Type().(*types.Basic); ok && bt.Kind() == types.Invalid {
				tv = append(tv, b.Int(0))
				continue
			}
			tv = append(tv, x.symbolic(tt.At(i).Type(), fmt.Sprintf("next.%d", i), &facts))
		}
		for _, f := range facts {
			st.assume(f)
		}
		fr.env[v] = tv
		return true
	case *ssa.Call:
		return x.call(st, v)
	}
	panic(unsupported(fmt.Sprintf("instruction %T", in)))
}

// enterBlockQ enters a block for a forked state that is queued (not run immediately).
func (x *Exec) enterBlockQ(st *State, b *ssa.BasicBlock) bool { return x.enterBlock(st, b) }

func fieldName(t types.Type, i int) string {
	if s, ok := t.Underlying().(*types.Struct); ok && i < s.NumFields() {
		return s.Field(i).Name()
	}
	return fmt.Sprint(i)
}

func (x *Exec) nilCheck(st *State, p PtrV, in ssa.Instruction, what string) {
	g := x.b.Ne(p.Obj, x.b.Int(0))
	if g.IsTrue() {
		return
	}
	if x.contract != nil && x.contract.HeapNonNil && p.Obj.Op == "select" {
		// sweep contract: a pointer read from memory is assumed non-nil (listed as an assumption)
		x.notes["pointers and interfaces loaded from memory are assumed non-nil (heapnonnil sweep contract)"] = true
		st.assume(g)
		return
	}
	fr := st.frameTop()
	detail := what
	if s := x.srcText(fr.fn, in.Pos(), "sel"); s != "" {
		detail = s
	} else if s := x.srcText(fr.fn, in.Pos(), "deref"); s != "" {
		detail = s
	}
	x.check(st, "nil", detail, in, g, "nil dereference")
}

func (x *Exec) recordStore(st *State, p PtrV) {}

// alloc creates a zero-initialised object holding a T and returns a pointer to it.
func (x *Exec) alloc(st *State, T types.Type) PtrV {
	id := st.newObjID()
	o := x.b.Int(id)
	p := PtrV{Obj: o, Off: x.b.Int(0), Elem: T}
	saved := st.rec
	st.rec = nil // initialisation of fresh memory is not a loop effect on old memory
	x.store(st, p, x.zero(T))
	st.rec = saved
	return p
}

func (x *Exec) fieldAddr(st *State, p PtrV, i int) PtrV {
	s, owner := structOf(p.Elem)
	if s == nil {
		panic(unsupported("FieldAddr on non-struct " + p.Elem.String()))
	}
	if p.FieldOf != nil {
		panic(unsupported("FieldAddr through a field pointer"))
	}
	f := s.Field(i)
	switch f.Type().Underlying().(type) {
	case *types.Struct, *types.Array:
		return PtrV{Obj: x.subObj(st, p.Obj, owner, f), Off: x.b.Int(0), Elem: f.Type()}
	}
	return PtrV{Obj: p.Obj, Off: x.b.Int(0), Elem: f.Type(), FieldOf: s, FieldIdx: i, FieldTy: owner}
}

func (x *Exec) indexAddr(st *State, v *ssa.IndexAddr) Value {
	b := x.b
	fr := st.frameTop()
	idx := x.intOf(x.term(st, v.Index))
	detail := x.detailOr(fr.fn, v.Pos(), "index", v.X.Name()+"["+v.Index.Name()+"]")
	switch xv := x.val(st, v.X).(type) {
	case SliceV:
		x.check(st, "index", detail, v, b.And(b.Le(b.Int(0), idx), b.Lt(idx, xv.Len)), "0 <= i < len")
		return PtrV{Obj: xv.Obj, Off: b.Add(xv.Off, idx), Elem: xv.Elem}
	case PtrV:
		at, ok := xv.Elem.Underlying().(*types.Array)
		if !ok {
			panic(unsupported("IndexAddr on pointer to " + xv.Elem.String()))
		}
		x.nilCheck(st, xv, v, "index")
		x.check(st, "index", detail, v, b.And(b.Le(b.Int(0), idx), b.Lt(idx, b.Int(at.Len()))), "0 <= i < N")
		if _, _, ok := x.elemHeap(at.Elem()); !ok {
			switch at.Elem().Underlying().(type) {
			case *types.Struct, *types.Array:
				return PtrV{Obj: x.elemSubObj(st, xv.Obj, b.Add(xv.Off, idx), at.Elem()), Off: b.Int(0), Elem: at.Elem()}
			}
		}
		return PtrV{Obj: xv.Obj, Off: b.Add(xv.Off, idx), Elem: at.Elem()}
	}
	panic(unsupported("IndexAddr base"))
}

// intOf converts a bit-vector index to Int when it is a literal (bits mode).
func (x *Exec) intOf(t *Term) *Term {
	if t.Sort == SInt {
		return t
	}
	if t.Op == "bv" {
		return x.b.IntB(t.Val)
	}
	w := bvWidth(t.Sort)
	if w <= 16 {
		return x.b.BV2Int(t)
	}
	panic(unsupported("symbolic wide bit-vector used as an index/length"))
}

func (x *Exec) index(st *State, v *ssa.Index) Value {
	b := x.b
	fr := st.frameTop()
	idx := x.intOf(x.term(st, v.Index))
	switch xv := x.val(st, v.X).(type) {
	case ArrayV:
		detail := x.detailOr(fr.fn, v.Pos(), "index", v.X.Name()+"["+v.Index.Name()+"]")
		x.check(st, "index", detail, v, b.And(b.Le(b.Int(0), idx), b.Lt(idx, b.Int(xv.N))), "0 <= i < N")
		if xv.Arr != nil {
			e := b.Select(xv.Arr, idx)
			if !e.bound {
				x.assumeRange(st, e, xv.Elem)
			}
			return e
		}
		if k, ok := idx.Int64(); ok && k >= 0 && k < int64(len(xv.Elems)) {
			return xv.Elems[k]
		}
		panic(unsupported("symbolic index into composite array value"))
	case StringV:
		x.check(st, "index", "string", v, b.And(b.Le(b.Int(0), idx), b.Lt(idx, xv.Len)), "0 <= i < len")
		if xv.Lit != nil {
			if k, ok := idx.Int64(); ok && k >= 0 && k < int64(len(*xv.Lit)) {
				return x.byteLit((*xv.Lit)[k])
			}
		}
		var facts []*Term
		r := x.symbolic(types.Typ[types.Uint8], "strbyte", &facts)
		for _, f := range facts {
			st.assume(f)
		}
		return r
	}
	panic(unsupported("Index base"))
}

func (x *Exec) byteLit(c byte) *Term {
	if x.mode == ModeBits {
		return x.b.BV(big.NewInt(int64(c)), 8)
	}
	return x.b.Int(int64(c))
}

func (x *Exec) slice(st *State, v *ssa.Slice) Value {
	b := x.b
	fr := st.frameTop()
	detail := x.detailOr(fr.fn, v.Pos(), "slice", v.X.Name()+"[:]")
	opt := func(e ssa.Value, def *Term) *Term {
		if e == nil {
			return def
		}
		return x.intOf(x.term(st, e))
	}
	switch xv := x.val(st, v.X).(type) {
	case SliceV:
		lo := opt(v.Low, b.Int(0))
		hi := opt(v.High, xv.Len)
		mx := opt(v.Max, xv.Cap)
		g := b.And(b.Le(b.Int(0), lo), b.Le(lo, hi), b.Le(hi, mx), b.Le(mx, xv.Cap))
		x.check(st, "slice", detail, v, g, "0 <= lo <= hi <= max <= cap")
		return SliceV{Obj: xv.Obj, Off: b.Add(xv.Off, lo), Len: b.Sub(hi, lo), Cap: b.Sub(mx, lo), Elem: xv.Elem}
	case PtrV:
		at, ok := xv.Elem.Underlying().(*types.Array)
		if !ok {
			panic(unsupported("Slice of pointer to " + xv.Elem.String()))
		}
		x.nilCheck(st, xv, v, "slice")
		n := b.Int(at.Len())
		lo := opt(v.Low, b.Int(0))
		hi := opt(v.High, n)
		mx := opt(v.Max, n)
		g := b.And(b.Le(b.Int(0), lo), b.Le(lo, hi), b.Le(hi, mx), b.Le(mx, n))
		x.check(st, "slice", detail, v, g, "0 <= lo <= hi <= max <= N")
		return SliceV{Obj: xv.Obj, Off: b.Add(xv.Off, lo), Len: b.Sub(hi, lo), Cap: b.Sub(mx, lo), Elem: at.Elem()}
	case StringV:
		lo := opt(v.Low, b.Int(0))
		hi := opt(v.High, xv.Len)
		g := b.And(b.Le(b.Int(0), lo), b.Le(lo, hi), b.Le(hi, xv.Len))
		x.check(st, "slice", detail, v, g, "0 <= lo <= hi <= len")
		r := StringV{Len: b.Sub(hi, lo)}
		if xv.Lit != nil {
			if l, ok := lo.Int64(); ok {
				if h, ok := hi.Int64(); ok && l >= 0 && h <= int64(len(*xv.Lit)) && l <= h {
					s := (*xv.Lit)[l:h]
					r.Lit = &s
				}
			}
		}
		if xv.Obj != nil {
			r.Obj, r.Off = xv.Obj, b.Add(xv.Off, lo)
		}
		return r
	}
	panic(unsupported("Slice base"))
}

func (x *Exec) makeSlice(st *State, v *ssa.MakeSlice) Value {
	b := x.b
	fr := st.frameTop()
	l := x.intOf(x.term(st, v.Len))
	c := x.intOf(x.term(st, v.Cap))
	detail := x.detailOr(fr.fn, v.Pos(), "call", "make")
	x.check(st, "makeslice", detail, v, b.And(b.Le(b.Int(0), l), b.Le(l, c)), "0 <= len <= cap")
	// assumption: an allocation of more than 2^40 elements does not return
	st.assume(b.mk("<=", SBool, "", nil, c, b.IntB(pow2(maxLenLog))))
	elem := v.Type().Underlying().(*types.Slice).Elem()
	return x.freshSlice(st, elem, l, c)
}

func (x *Exec) freshSlice(st *State, elem types.Type, l, c *Term) SliceV {
	b := x.b
	id := st.newObjID()
	o := b.Int(id)
	if hn, es, ok := x.elemHeap(elem); ok {
		var z *Term
		switch {
		case es == SBool:
			z = b.False()
		case es == SInt:
			z = b.Int(0)
		default:
			z = b.BV(new(big.Int), bvWidth(es))
		}
		h := st.heap(x, hn, SArr(SInt, SArr(SInt, es)))
		st.heaps[hn] = b.Store(h, o, b.ConstArr(SArr(SInt, es), z))
		st.dirty[hn] = true
	} else {
		switch elem.Underlying().(type) {
		case *types.Slice:
			for _, s := range []string{"obj", "off", "len", "cap"} {
				n := "H_sl#" + s
				h := st.heap(x, n, SHeapII)
				st.heaps[n] = b.Store(h, o, b.ConstArr(SArrII, b.Int(0)))
				st.dirty[n] = true
			}
		case *types.Interface:
			for _, s := range []string{"ityp", "ival"} {
				n := "H_if#" + s
				h := st.heap(x, n, SHeapII)
				st.heaps[n] = b.Store(h, o, b.ConstArr(SArrII, b.Int(0)))
				st.dirty[n] = true
			}
		default:
			// composite elements: zero-initialisation is not modelled (contents unconstrained)
			x.notes["make of slice with composite elements: contents unconstrained"] = true
		}
	}
	return SliceV{Obj: o, Off: b.Int(0), Len: l, Cap: c, Elem: elem}
}

func (x *Exec) lookup(st *State, v *ssa.Lookup) Value {
	b := x.b
	if sv, ok := x.val(st, v.X).(StringV); ok {
		idx := x.intOf(x.term(st, v.Index))
		x.check(st, "index", "string", v, b.And(b.Le(b.Int(0), idx), b.Lt(idx, sv.Len)), "0 <= i < len")
		if sv.Lit != nil {
			if k, ok := idx.Int64(); ok && k >= 0 && k < int64(len(*sv.Lit)) {
				return x.byteLit((*sv.Lit)[k])
			}
		}
		var facts []*Term
		r := x.symbolic(types.Typ[types.Uint8], "strbyte", &facts)
		for _, f := range facts {
			st.assume(f)
		}
		return r
	}
	// map lookup: unconstrained
	var facts []*Term
	var r Value
	if v.CommaOk {
		tt := v.Type().(*types.Tuple)
		r = TupleV{x.symbolic(tt.At(0).Type(), "maplookup", &facts), b.Fresh("mapok", SBool)}
	} else {
		r = x.symbolic(v.Type(), "maplookup", &facts)
	}
	for _, f := range facts {
		st.assume(f)
	}
	return r
}

func (x *Exec) typeAssert(st *State, v *ssa.TypeAssert) Value {
	b := x.b
	iv := x.val(st, v.X).(IfaceV)
	_, toIface := v.AssertedType.Underlying().(*types.Interface)
	var ok *Term
	var res Value
	if iv.Dyn != nil {
		if toIface {
			imp := types.Implements(iv.Dyn, v.AssertedType.Underlying().(*types.Interface))
			ok = b.Bool(imp)
			r := iv
			r.T = v.AssertedType
			res = r
		} else {
			same := types.Identical(iv.Dyn, v.AssertedType)
			ok = b.Bool(same)
			if same {
				res = iv.Concrete
			} else {
				res = x.zero(v.AssertedType)
			}
		}
	} else if toIface {
		// unknown dynamic type: the outcome is an opaque function of the type tag
		ok = b.And(b.Ne(iv.Typ, b.Int(0)), b.Eq(b.App("implements!"+sanitize(types.TypeString(v.AssertedType, nil)), SInt, iv.Typ), b.Int(1)))
		r := iv
		r.T = v.AssertedType
		res = r
	} else {
		ok = b.Eq(iv.Typ, x.typeID(v.AssertedType))
		var facts []*Term
		switch u := v.AssertedType.Underlying().(type) {
		case *types.Pointer:
			res = PtrV{Obj: iv.Val, Off: b.Int(0), Elem: u.Elem()}
		default:
			if _, isB := basicKind(v.AssertedType); isB && x.scalarSort(v.AssertedType) == SInt {
				res = iv.Val
			} else {
				res = x.symbolic(v.AssertedType, "unboxed", &facts)
			}
		}
		for _, f := range facts {
			st.assume(f)
		}
		if p, isP := res.(PtrV); isP {
			// a non-nil interface holding a pointer type may still hold a nil pointer; no fact
			_ = p
		}
	}
	if v.CommaOk {
		return TupleV{res, ok}
	}
	x.check(st, "typeassert", sanitize(types.TypeString(v.AssertedType, func(p *types.Package) string { return p.Name() })), v, ok, "type assertion succeeds")
	return res
}

// coerce adapts a value to the static type it is stored into (interfaces of known type etc.).
func (x *Exec) coerce(st *State, v Value, t types.Type) Value {
	return v
}

func (x *Exec) retype(v Value, t types.Type) Value {
	switch vv := v.(type) {
	case SliceV:
		if s, ok := t.Underlying().(*types.Slice); ok {
			vv.Elem = s.Elem()
		}
		return vv
	case PtrV:
		if p, ok := t.Underlying().(*types.Pointer); ok && vv.FieldOf == nil {
			vv.Elem = p.Elem()
		}
		return vv
	case StructV:
		vv.T = t
		return vv
	case IfaceV:
		vv.T = t
		return vv
	}
	return v
}

// ---------- unary and binary operators

func (x *Exec) unop(st *State, v *ssa.UnOp) Value {
	b := x.b
	switch v.Op {
	case token.MUL:
		p := x.asPtr(x.val(st, v.X))
		x.nilCheck(st, p, v, "load")
		r := x.load(st, p)
		if g, ok := v.X.(*ssa.Global); ok {
			if fv, isFunc := r.(FuncV); isFunc && fv.Fn == nil && g.Pkg != nil && strings.HasPrefix(g.Pkg.Pkg.Path(), modPath) &&
				!x.prog.globalMutated(g) && !x.prog.globInit[g] {
				// a package-level function variable that no non-test code ever assigns (test hook) is nil
				r = FuncV{ID: b.Int(0)}
				x.notes["package-level function variables that only tests assign are nil"] = true
			}
			if iv, isIface := r.(IfaceV); isIface && x.globalErrNonNil(g) {
				st.assume(b.Ne(iv.Typ, b.Int(0)))
				x.notes["package-level error variables initialised by errors.New and never reassigned are non-nil"] = true
			}
			if sv, isSlice := r.(SliceV); isSlice {
				if n := x.globalSliceLen(g); n >= 0 {
					// package-level table initialised by a composite literal and never reassigned
					st.assume(b.Eq(sv.Len, b.Int(n)))
					st.assume(b.Eq(sv.Cap, b.Int(n)))
					st.assume(b.Eq(sv.Off, b.Int(0)))
					x.notes["package-level tables keep the length of their initialiser (no store outside init was found)"] = true
				}
			}
		}
		return r
	case token.NOT:
		return b.Not(x.term(st, v.X))
	case token.SUB:
		t := x.term(st, v.X)
		if isBV(t.Sort) {
			return b.Neg(t)
		}
		return x.wrapOrCheck(st, b.Neg(t), v.Type(), v, "-")
	case token.XOR:
		t := x.term(st, v.X)
		if isBV(t.Sort) {
			return b.BvNot(t)
		}
		k, _ := basicKind(v.Type())
		if k.signed {
			return b.Sub(b.Int(-1), t)
		}
		return b.Sub(b.IntB(k.hi()), t)
	case token.ARROW:
		panic(unsupported("channel receive"))
	}
	panic(unsupported("unary " + v.Op.String()))
}

// wrapOrCheck applies Go's fixed-width semantics to a mathematical result: unsigned types
// wrap, signed types get an overflow obligation (unless the contract says nooverflow).
func (x *Exec) wrapOrCheck(st *State, r *Term, t types.Type, in ssa.Instruction, op string) *Term {
	b := x.b
	k, ok := basicKind(t)
	if !ok || k.bits == 0 {
		return r
	}
	if !k.signed {
		return b.Mod(r, b.IntB(pow2(uint(k.bits))))
	}
	lo, hi := b.Bounds(r)
	if lo != nil && hi != nil && lo.Cmp(k.lo()) >= 0 && hi.Cmp(k.hi()) <= 0 {
		return r
	}
	fr := st.frameTop()
	if fr.contract != nil && fr.contract.NoOverflow || x.contract != nil && x.contract.NoOverflow {
		x.notes["signed arithmetic treated as mathematical (nooverflow)"] = true
		return r
	}
	g := b.And(b.Le(b.IntB(k.lo()), r), b.Le(r, b.IntB(k.hi())))
	detail := x.detailOr(fr.fn, in.Pos(), "binop", op)
	x.check(st, "overflow", detail, in, g, "signed arithmetic stays in range")
	return r
}

func lowZeroBits(t *Term) uint {
	switch t.Op {
	case "int":
		if t.Val.Sign() == 0 {
			return 1 << 20
		}
		return t.Val.TrailingZeroBits()
	case "*":
		if t.Args[0].Op == "int" {
			return t.Args[0].Val.TrailingZeroBits() + lowZeroBits(t.Args[1])
		}
	case "+":
		m := uint(1 << 20)
		for _, a := range t.Args {
			if z := lowZeroBits(a); z < m {
				m = z
			}
		}
		return m
	case "app":
		if t.Name == "byte!0" {
			z := lowZeroBits(t.Args[0])
			if z > 8 {
				z = 8
			}
			return z
		}
	case "mod":
		// (t mod 2^k) keeps the low zero bits of t (at most k of them)
		if t.Args[1].Op == "int" {
			if k, ok := isPow2(t.Args[1].Val); ok {
				z := lowZeroBits(t.Args[0])
				if z > k {
					z = k
				}
				return z
			}
		}
	}
	return 0
}

func isPow2(v *big.Int) (uint, bool) {
	if v.Sign() <= 0 {
		return 0, false
	}
	n := uint(v.BitLen() - 1)
	return n, new(big.Int).Lsh(big1, n).Cmp(v) == 0
}

func (x *Exec) binop(st *State, v *ssa.BinOp) Value {
	b := x.b
	xv, yv := x.val(st, v.X), x.val(st, v.Y)
	switch v.Op {
	case token.EQL, token.NEQ:
		e := x.equal(st, xv, yv, v.X.Type())
		if v.Op == token.NEQ {
			return b.Not(e)
		}
		return e
	}
	xt, ok1 := xv.(*Term)
	yt, ok2 := yv.(*Term)
	if !ok1 || !ok2 {
		if sx, ok := xv.(StringV); ok {
			sy := yv.(StringV)
			if v.Op == token.ADD {
				r := StringV{Len: b.Add(sx.Len, sy.Len)}
				if sx.Lit != nil && sy.Lit != nil {
					s := *sx.Lit + *sy.Lit
					r.Lit = &s
				}
				return r
			}
			return b.Fresh("strcmp", SBool)
		}
		if _, ok := xv.(OpaqueV); ok {
			if _, isB := v.Type().Underlying().(*types.Basic); isB && v.Type().Underlying().(*types.Basic).Info()&types.IsBoolean != 0 {
				return b.Fresh("fcmp", SBool)
			}
			return OpaqueV{T: v.Type(), ID: b.Fresh("fop", SInt)}
		}
		panic(unsupported(fmt.Sprintf("binary %s on %T", v.Op, xv)))
	}
	if isBV(xt.Sort) || isBV(yt.Sort) {
		return x.binopBV(st, v, xt, yt)
	}
	if xt.Sort == SBool {
		switch v.Op {
		case token.AND, token.LAND:
			return b.And(xt, yt)
		case token.OR, token.LOR:
			return b.Or(xt, yt)
		case token.XOR:
			return b.Not(b.Eq(xt, yt))
		}
		panic(unsupported("boolean " + v.Op.String()))
	}
	T := v.Type()
	k, _ := basicKind(v.X.Type())
	nonneg := func(t *Term) bool { lo, _ := b.Bounds(t); return lo != nil && lo.Sign() >= 0 }
	switch v.Op {
	case token.LSS:
		return b.Lt(xt, yt)
	case token.LEQ:
		return b.Le(xt, yt)
	case token.GTR:
		return b.Gt(xt, yt)
	case token.GEQ:
		return b.Ge(xt, yt)
	case token.ADD:
		return x.wrapOrCheck(st, b.Add(xt, yt), T, v, "+")
	case token.SUB:
		return x.wrapOrCheck(st, b.Sub(xt, yt), T, v, "-")
	case token.MUL:
		return x.wrapOrCheck(st, b.Mul(xt, yt), T, v, "*")
	case token.QUO, token.REM:
		fr := st.frameTop()
		x.check(st, "div0", x.detailOr(fr.fn, v.Pos(), "binop", v.Op.String()), v, b.Ne(yt, b.Int(0)), "divisor is not zero")
		if nonneg(xt) && nonneg(yt) {
			if v.Op == token.QUO {
				return b.Div(xt, yt)
			}
			return b.Mod(xt, yt)
		}
		// truncated division
		ax := b.Ite(b.Le(b.Int(0), xt), xt, b.Neg(xt))
		ay := b.Ite(b.Le(b.Int(0), yt), yt, b.Neg(yt))
		if v.Op == token.QUO {
			q := b.Div(ax, ay)
			same := b.Eq(b.Le(b.Int(0), xt), b.Le(b.Int(0), yt))
			return x.wrapOrCheck(st, b.Ite(same, q, b.Neg(q)), T, v, "/")
		}
		r := b.Mod(ax, ay)
		return b.Ite(b.Le(b.Int(0), xt), r, b.Neg(r))
	case token.SHL:
		x.shiftCheck(st, v, yt)
		if yt.Op == "int" {
			if yt.Val.Cmp(big.NewInt(int64(k.bits))) >= 0 {
				return b.Int(0)
			}
			return x.wrapOrCheck(st, b.Mul(xt, b.IntB(pow2(uint(yt.Val.Int64())))), T, v, "<<")
		}
		if xt.Op == "int" && xt.Val.Cmp(big1) == 0 {
			// 1 << y : keep as pow2(y)
			r := b.App("pow2", SInt, yt)
			x.usePow2 = true
			return x.wrapShift(st, r, T)
		}
		r := b.App(fmt.Sprintf("bshl%d", k.bits), SInt, xt, yt)
		st.assumeBound(x, r, k.lo(), k.hi())
		return r
	case token.SHR:
		x.shiftCheck(st, v, yt)
		if yt.Op == "int" {
			if yt.Val.Cmp(big.NewInt(int64(k.bits))) >= 0 {
				if k.signed {
					return b.Ite(b.Le(b.Int(0), xt), b.Int(0), b.Int(-1))
				}
				return b.Int(0)
			}
			return b.Div(xt, b.IntB(pow2(uint(yt.Val.Int64()))))
		}
		r := b.App(fmt.Sprintf("bshr%d", k.bits), SInt, xt, yt)
		lo, hi := k.lo(), k.hi()
		if _, h := b.Bounds(xt); h != nil && nonneg(xt) {
			lo, hi = new(big.Int), h
		}
		st.assumeBound(x, r, lo, hi)
		return r
	case token.AND:
		if yt.Op != "int" && xt.Op == "int" {
			xt, yt = yt, xt
		}
		if yt.Op == "int" {
			if n, ok := isPow2(new(big.Int).Add(yt.Val, big1)); ok {
				return b.Mod(xt, b.IntB(pow2(n)))
			}
			if yt.Val.Sign() == 0 {
				return b.Int(0)
			}
			// mask with low zero bits and contiguous ones up to the type width: x - x mod 2^z
			if !k.signed {
				inv := new(big.Int).Sub(k.hi(), yt.Val)
				if n, ok := isPow2(new(big.Int).Add(inv, big1)); ok {
					return b.Sub(xt, b.Mod(xt, b.IntB(pow2(n))))
				}
			}
			// single contiguous run of ones: (x div 2^lo mod 2^len) * 2^lo
			tz := yt.Val.TrailingZeroBits()
			sh := new(big.Int).Rsh(yt.Val, tz)
			if n, ok := isPow2(new(big.Int).Add(sh, big1)); ok && yt.Val.Sign() > 0 {
				return b.Mul(b.Mod(b.Div(xt, b.IntB(pow2(tz))), b.IntB(pow2(n))), b.IntB(pow2(tz)))
			}
		}
		r := b.App(fmt.Sprintf("band%d", k.bits), SInt, xt, yt)
		lo, hi := k.lo(), k.hi()
		if nonneg(xt) || nonneg(yt) {
			lo = new(big.Int)
			_, hx := b.Bounds(xt)
			_, hy := b.Bounds(yt)
			if nonneg(xt) && hx != nil {
				hi = hx
			}
			if nonneg(yt) && hy != nil && hy.Cmp(hi) < 0 {
				hi = hy
			}
		}
		st.assumeBound(x, r, lo, hi)
		return r
	case token.AND_NOT:
		if yt.Op == "int" {
			if n, ok := isPow2(new(big.Int).Add(yt.Val, big1)); ok {
				return b.Sub(xt, b.Mod(xt, b.IntB(pow2(n))))
			}
			if yt.Val.Sign() == 0 {
				return xt
			}
		}
		r := b.App(fmt.Sprintf("bandnot%d", k.bits), SInt, xt, yt)
		lo, hi := k.lo(), k.hi()
		if _, hx := b.Bounds(xt); nonneg(xt) && hx != nil {
			lo, hi = new(big.Int), hx
		}
		st.assumeBound(x, r, lo, hi)
		return r
	case token.OR, token.XOR:
		if xt.Op == "int" && xt.Val.Sign() == 0 {
			return yt
		}
		if yt.Op == "int" && yt.Val.Sign() == 0 {
			return xt
		}
		if nonneg(xt) && nonneg(yt) {
			// disjoint bit ranges: or/xor is addition
			_, hx := b.Bounds(xt)
			_, hy := b.Bounds(yt)
			if hy != nil && uint(hy.BitLen()) <= lowZeroBits(xt) || hx != nil && uint(hx.BitLen()) <= lowZeroBits(yt) {
				return b.Add(xt, yt)
			}
		}
		if v.Op == token.XOR && xt == yt {
			return b.Int(0)
		}
		name := "bor"
		if v.Op == token.XOR {
			name = "bxor"
		}
		if xt.id > yt.id {
			xt, yt = yt, xt
		}
		r := b.App(fmt.Sprintf("%s%d", name, k.bits), SInt, xt, yt)
		lo, hi := k.lo(), k.hi()
		if nonneg(xt) && nonneg(yt) {
			lo = new(big.Int)
			_, hx := b.Bounds(xt)
			_, hy := b.Bounds(yt)
			if hx != nil && hy != nil {
				n := hx.BitLen()
				if hy.BitLen() > n {
					n = hy.BitLen()
				}
				hi = new(big.Int).Sub(pow2(uint(n)), big1)
				if !k.signed && hi.Cmp(k.hi()) > 0 {
					// the operands are values of the type, whatever their computed bounds say
					hi = k.hi()
				}
			}
		}
		st.assumeBound(x, r, lo, hi)
		x.useBitAxioms[name] = true
		return r
	}
	panic(unsupported("binary " + v.Op.String()))
}

func (x *Exec) wrapShift(st *State, r *Term, t types.Type) *Term {
	k, _ := basicKind(t)
	if !k.signed {
		return x.b.Mod(r, x.b.IntB(pow2(uint(k.bits))))
	}
	return r
}

func (x *Exec) shiftCheck(st *State, v *ssa.BinOp, y *Term) {
	k, ok := basicKind(v.Y.Type())
	if !ok || !k.signed {
		return
	}
	g := x.b.Le(x.b.Int(0), y)
	if g.IsTrue() {
		return
	}
	fr := st.frameTop()
	x.check(st, "shift", x.detailOr(fr.fn, v.Pos(), "binop", "shift"), v, g, "shift count is not negative")
}

// equal compares two values of static type t.
func (x *Exec) equal(st *State, a, c Value, t types.Type) *Term {
	b := x.b
	switch av := a.(type) {
	case *Term:
		return b.Eq(av, c.(*Term))
	case PtrV:
		cv := c.(PtrV)
		if av.FieldOf != nil || cv.FieldOf != nil {
			if av.FieldOf != nil && cv.FieldOf != nil && av.FieldIdx == cv.FieldIdx && av.FieldTy == cv.FieldTy {
				return b.Eq(av.Obj, cv.Obj)
			}
			if av.FieldOf == nil && av.Obj.IsLit() && av.Obj.Val.Sign() == 0 || cv.FieldOf == nil && cv.Obj.IsLit() && cv.Obj.Val.Sign() == 0 {
				// comparison of a field address with nil
				o := av.Obj
				if cv.FieldOf != nil {
					o = cv.Obj
				}
				return b.Eq(o, b.Int(0))
			}
			return b.False()
		}
		if (av.Obj.IsLit() && av.Obj.Val.Sign() == 0) || (cv.Obj.IsLit() && cv.Obj.Val.Sign() == 0) {
			return b.Eq(av.Obj, cv.Obj)
		}
		return b.And(b.Eq(av.Obj, cv.Obj), b.Eq(av.Off, cv.Off))
	case SliceV:
		cv := c.(SliceV)
		// only comparison with nil is legal Go
		if cv.Obj.IsLit() {
			return b.Eq(av.Obj, b.Int(0))
		}
		return b.Eq(cv.Obj, b.Int(0))
	case IfaceV:
		cv := c.(IfaceV)
		if cv.Typ.IsLit() && cv.Typ.Val.Sign() == 0 {
			return b.Eq(av.Typ, b.Int(0))
		}
		if av.Typ.IsLit() && av.Typ.Val.Sign() == 0 {
			return b.Eq(cv.Typ, b.Int(0))
		}
		return b.And(b.Eq(av.Typ, cv.Typ), b.Eq(av.Val, cv.Val))
	case FuncV:
		cv := c.(FuncV)
		if cv.Fn == nil && cv.Builtin == nil && cv.ID != nil {
			return b.Eq(x.funcID(av), cv.ID)
		}
		return b.Eq(x.funcID(av), x.funcID(cv))
	case MapV:
		return b.Eq(av.ID, c.(MapV).ID)
	case OpaqueV:
		cv := c.(OpaqueV)
		if _, isChan := av.T.Underlying().(*types.Chan); isChan {
			return b.Eq(av.ID, cv.ID)
		}
		return b.Fresh("opqeq", SBool)
	case StringV:
		cv := c.(StringV)
		if av.Lit != nil && cv.Lit != nil {
			return b.Bool(*av.Lit == *cv.Lit)
		}
		if av.Lit != nil && len(*av.Lit) == 0 {
			return b.Eq(cv.Len, b.Int(0))
		}
		if cv.Lit != nil && len(*cv.Lit) == 0 {
			return b.Eq(av.Len, b.Int(0))
		}
		e := b.Fresh("streq", SBool)
		st.assume(b.Implies(e, b.Eq(av.Len, cv.Len)))
		return e
	case StructV:
		cv := c.(StructV)
		var cs []*Term
		s := av.T.Underlying().(*types.Struct)
		for i := range av.Fields {
			cs = append(cs, x.equal(st, av.Fields[i], cv.Fields[i], s.Field(i).Type()))
		}
		return b.And(cs...)
	case ArrayV:
		cv := c.(ArrayV)
		if av.Arr != nil && cv.Arr != nil {
			if av.N <= 64 {
				var cs []*Term
				for i := int64(0); i < av.N; i++ {
					cs = append(cs, b.Eq(b.Select(av.Arr, b.Int(i)), b.Select(cv.Arr, b.Int(i))))
				}
				return b.And(cs...)
			}
			i := b.Var("i!eq", SInt)
			return b.Forall([]*Term{i}, b.Implies(b.And(b.Le(b.Int(0), i), b.Lt(i, b.Int(av.N))), b.Eq(b.Select(av.Arr, i), b.Select(cv.Arr, i))))
		}
	}
	panic(unsupported(fmt.Sprintf("comparison of %T", a)))
}

// ---------- conversions

func (x *Exec) convert(st *State, v Value, from, to types.Type, in ssa.Instruction) Value {
	b := x.b
	fu, tu := from.Underlying(), to.Underlying()
	// string <-> []byte
	if fb, ok := fu.(*types.Basic); ok && fb.Info()&types.IsString != 0 {
		if ts, ok := tu.(*types.Slice); ok {
			sv := v.(StringV)
			r := x.freshSlice(st, ts.Elem(), sv.Len, sv.Len)
			hn, es, _ := x.elemHeap(ts.Elem())
			h := st.heap(x, hn, SArr(SInt, SArr(SInt, es)))
			if sv.Lit != nil && len(*sv.Lit) <= 256 && es == SInt {
				arr := b.Select(h, r.Obj)
				for i := 0; i < len(*sv.Lit); i++ {
					arr = b.Store(arr, b.Int(int64(i)), b.Int(int64((*sv.Lit)[i])))
				}
				st.heaps[hn] = b.Store(h, r.Obj, arr)
			} else {
				st.heaps[hn] = b.Store(h, r.Obj, b.Fresh("strbytes", SArr(SInt, es)))
			}
			return r
		}
		if _, ok := tu.(*types.Basic); ok {
			return v
		}
	}
	if tb, ok := tu.(*types.Basic); ok && tb.Info()&types.IsString != 0 {
		switch fv := v.(type) {
		case SliceV:
			return StringV{Len: fv.Len, Obj: fv.Obj, Off: fv.Off}
		case *Term:
			// string(rune)
			l := b.Fresh("runelen", SInt)
			st.assumeBound(x, l, big.NewInt(1), big.NewInt(4))
			return StringV{Len: l}
		}
	}
	// pointers and unsafe.Pointer
	if p, ok := v.(PtrV); ok {
		if tp, ok := tu.(*types.Pointer); ok {
			p.Elem = tp.Elem()
			return p
		}
		if tb, ok := tu.(*types.Basic); ok && tb.Kind() == types.UnsafePointer {
			return p
		}
		if tb, ok := tu.(*types.Basic); ok && tb.Kind() == types.Uintptr {
			x.notes["unsafe pointer arithmetic: address abstracted"] = true
			// address = base(obj)*? + off ; model as an injective-in-off function of the object
			return b.Add(b.App("addr", SInt, p.Obj), p.Off)
		}
	}
	// slice -> array (Go 1.20)
	if sv, ok := v.(SliceV); ok {
		if at, ok := tu.(*types.Array); ok {
			x.check(st, "conv", "slice->array", in, b.Le(b.Int(at.Len()), sv.Len), "slice to array: len >= N")
			return x.loadArray(st, sv.Obj, sv.Off, at)
		}
		if ts, ok := tu.(*types.Slice); ok {
			sv.Elem = ts.Elem()
			return sv
		}
	}
	t, ok := v.(*Term)
	if !ok {
		if _, isO := v.(OpaqueV); isO {
			if _, isInt := basicKind(to); isInt {
				var facts []*Term
				r := x.symbolic(to, "fconv", &facts)
				for _, f := range facts {
					st.assume(f)
				}
				return r
			}
			return OpaqueV{T: to, ID: b.Fresh("fconv", SInt)}
		}
		panic(unsupported(fmt.Sprintf("conversion of %T from %s to %s", v, from, to)))
	}
	fk, ok1 := basicKind(from)
	tk, ok2 := basicKind(to)
	if !ok2 {
		if tb, ok := tu.(*types.Basic); ok && (tb.Info()&types.IsFloat != 0) {
			return OpaqueV{T: to, ID: b.Fresh("tofloat", SInt)}
		}
		if tb, ok := tu.(*types.Basic); ok && tb.Kind() == types.UnsafePointer {
			x.notes["uintptr to unsafe.Pointer conversion: result abstracted"] = true
			return PtrV{Obj: b.Fresh("uptr", SInt), Off: b.Int(0), Elem: types.Typ[types.Uint8]}
		}
		panic(unsupported("conversion to " + to.String()))
	}
	if !ok1 {
		panic(unsupported("conversion from " + from.String()))
	}
	if isBV(t.Sort) || x.scalarSort(to) != SInt {
		return x.convertBV(st, t, fk, tk)
	}
	if tk.bits == 0 || fk.bits == 0 {
		return t
	}
	// integer to integer, arith mode
	lo, hi := b.Bounds(t)
	if lo != nil && hi != nil && lo.Cmp(tk.lo()) >= 0 && hi.Cmp(tk.hi()) <= 0 {
		return t
	}
	m := b.IntB(pow2(uint(tk.bits)))
	if !tk.signed {
		return b.Mod(t, m)
	}
	half := b.IntB(pow2(uint(tk.bits - 1)))
	return b.Sub(b.Mod(b.Add(t, half), m), half)
}

// ---------- returns and panics

func (x *Exec) doPanic(st *State, v *ssa.Panic) {
	fr := st.frameTop()
	msg := ""
	if mi, ok := v.X.(*ssa.MakeInterface); ok {
		if c, ok := mi.X.(*ssa.Const); ok && c.Value != nil && c.Value.Kind() == constant.String {
			msg = constant.StringVal(c.Value)
		}
	}
	top := st.frameBottom()
	if top.contract != nil && top.contract.PanicsIff != nil && len(st.frames) == 1 {
		// allowed panic: must be inside the declared condition
		ctx := x.specCtxOld(st, top)
		g := x.evalBool(ctx, top.contract.PanicsIff)
		x.addObl(st, "panic-allowed", oneLine(msg), v, g, "explicit panic only under: "+top.contract.PanicsIff.String())
		x.panics = append(x.panics, st)
		return
	}
	if top.contract != nil && top.contract.MayPanic {
		return
	}
	_ = fr
	x.addObl(st, "panic", oneLine(msg), v, x.b.False(), "explicit panic is unreachable: "+msg)
}

func (x *Exec) doReturn(st *State, v *ssa.Return) bool {
	fr := st.frameTop()
	var res []Value
	for _, r := range v.Results {
		res = append(res, x.val(st, r))
	}
	if len(st.frames) > 1 {
		// return from an inlined callee
		st.frames = st.frames[:len(st.frames)-1]
		caller := st.frameTop()
		if val, ok := fr.call.(ssa.Value); ok {
			switch len(res) {
			case 0:
				caller.env[val] = TupleV{}
			case 1:
				caller.env[val] = res[0]
			default:
				caller.env[val] = TupleV(res)
			}
			if fr.afterCN != nil {
				x.curCall, x.curArgs = val, fr.callArgs
				x.userAsserts(st, caller, *fr.afterCN, true)
				x.curCall, x.curArgs = nil, nil
				return !st.dead
			}
		}
		return true
	}
	if st.dry != nil {
		return false
	}
	x.curRet = res
	x.userAsserts(st, fr, callName{"@return", 1}, false)
	x.curRet = nil
	x.atReturn(st, fr, res, v)
	return false
}

// globalSliceLen returns the number of elements of the composite literal that initialises a
// package-level slice variable, if the variable is never assigned outside package initialisation.
func (x *Exec) globalSliceLen(g *ssa.Global) int64 {
	if n, ok := x.globLen[g]; ok {
		return n
	}
	n := int64(-1)
	defer func() { x.globLen[g] = n }()
	if g.Pkg == nil {
		return n
	}
	if x.prog.globalMutated(g) {
		return n
	}
	pp := x.prog.PPkgs[g.Pkg.Pkg.Path()]
	if pp == nil {
		return n
	}
	for _, f := range pp.Syntax {
		for _, d := range f.Decls {
			gd, ok := d.(*ast.GenDecl)
			if !ok || gd.Tok != token.VAR {
				continue
			}
			for _, sp := range gd.Specs {
				vs := sp.(*ast.ValueSpec)
				for i, nm := range vs.Names {
					if nm.Name != g.Name() || i >= len(vs.Values) {
						continue
					}
					if cl, ok := vs.Values[i].(*ast.CompositeLit); ok {
						keyed := false
						for _, e := range cl.Elts {
							if _, ok := e.(*ast.KeyValueExpr); ok {
								keyed = true
							}
						}
						if !keyed {
							n = int64(len(cl.Elts))
						}
					}
				}
			}
		}
	}
	return n
}

// globalMutated reports whether anything in the loaded program other than the initialiser of the
// global's package stores to the global or takes its address (any use that is not a plain load).
func (p *Program) globalMutated(g *ssa.Global) bool {
	p.globOnce.Do(func() {
		p.globMut = map[*ssa.Global]bool{}
		p.globInit = map[*ssa.Global]bool{}
		for _, f := range p.funcs {
			isInit := f.Name() == "init" || strings.HasPrefix(f.Name(), "init#")
			for _, blk := range f.Blocks {
				for _, in := range blk.Instrs {
					for _, op := range in.Operands(nil) {
						gg, ok := (*op).(*ssa.Global)
						if !ok {
							continue
						}
						switch v := in.(type) {
						case *ssa.UnOp:
							if v.Op == token.MUL {
								continue
							}
						case *ssa.Store:
							if v.Addr == ssa.Value(gg) && isInit && f.Pkg == gg.Pkg {
								p.globInit[gg] = true
								continue
							}
						case *ssa.DebugRef:
							continue
						}
						p.globMut[gg] = true
					}
				}
			}
		}
	})
	return p.globMut[g]
}

// globalErrNonNil: a package-level variable declared "var X = errors.New(...)" (or fmt.Errorf) that
// nothing reassigns holds a non-nil error.
func (x *Exec) globalErrNonNil(g *ssa.Global) bool {
	if v, ok := x.globErr[g]; ok {
		return v
	}
	r := false
	defer func() { x.globErr[g] = r }()
	if g.Pkg == nil || x.prog.globalMutated(g) {
		return r
	}
	pp := x.prog.PPkgs[g.Pkg.Pkg.Path()]
	if pp == nil {
		return r
	}
	for _, f := range pp.Syntax {
		for _, d := range f.Decls {
			gd, ok := d.(*ast.GenDecl)
			if !ok || gd.Tok != token.VAR {
				continue
			}
			for _, sp := range gd.Specs {
				vs := sp.(*ast.ValueSpec)
				for i, nm := range vs.Names {
					if nm.Name != g.Name() || i >= len(vs.Values) {
						continue
					}
					if ce, ok := vs.Values[i].(*ast.CallExpr); ok {
						if se, ok := ce.Fun.(*ast.SelectorExpr); ok {
							if id, ok := se.X.(*ast.Ident); ok {
								full := id.Name + "." + se.Sel.Name
								if full == "errors.New" || full == "fmt.Errorf" {
									r = true
								}
							}
						}
					}
				}
			}
		}
	}
	return r
}
