package main

// Terms: a hash-consed DAG of SMT-LIB expressions with a light simplifier.
// Sorts are SMT-LIB sort strings ("Int", "Bool", "(_ BitVec 32)", "(Array Int Int)", ...).

import (
	"fmt"
	"math/big"
	"regexp"
	"sort"
	"strings"
	"sync"
)

const (
	SInt  = "Int"
	SBool = "Bool"
)

func SArr(idx, elem string) string { return "(Array " + idx + " " + elem + ")" }
func SBV(w int) string             { return fmt.Sprintf("(_ BitVec %d)", w) }

var (
	SArrII  = SArr(SInt, SInt)
	SHeapII = SArr(SInt, SArrII)
)

func isBV(s string) bool { return strings.HasPrefix(s, "(_ BitVec ") }
func bvWidth(s string) int {
	var w int
	fmt.Sscanf(s, "(_ BitVec %d)", &w)
	return w
}
func arrElem(s string) string {
	// "(Array I E)" -> E ; I is always a simple sort or array; parse by paren depth
	if !strings.HasPrefix(s, "(Array ") {
		panic("arrElem: not an array sort: " + s)
	}
	body := s[len("(Array ") : len(s)-1]
	depth := 0
	for i, c := range body {
		switch c {
		case '(':
			depth++
		case ')':
			depth--
		case ' ':
			if depth == 0 {
				return body[i+1:]
			}
		}
	}
	panic("arrElem: " + s)
}
func arrIdx(s string) string {
	body := s[len("(Array ") : len(s)-1]
	depth := 0
	for i, c := range body {
		switch c {
		case '(':
			depth++
		case ')':
			depth--
		case ' ':
			if depth == 0 {
				return body[:i]
			}
		}
	}
	panic("arrIdx: " + s)
}

type Term struct {
	Op    string // see constructors
	Args  []*Term
	Sort  string
	Name  string   // symbol / function / bound variable name
	Val   *big.Int // literal value for "int" and "bv"
	id    int
	bound bool   // contains a bound variable
	Pat   string // optional :pattern text is not supported; reserved
}

type funcDecl struct {
	name string
	args []string
	ret  string
}

// TermBank owns hash-consing and symbol tables for one verification run of one function.
type TermBank struct {
	tab    map[string]*Term
	nextID int
	funcs  map[string]*funcDecl // uninterpreted functions declared on demand
	fresh  int
	// side facts about symbols (type ranges); used by bounds()
	symLo, symHi map[*Term]*big.Int
	bcache       map[*Term][2]*big.Int
	// terms known to equal a literal on every path where they exist (from requires / callee results)
	known map[*Term]*Term
	mu    sync.Mutex // serialises script generation (axiom instantiation creates terms)
}

func NewBank() *TermBank {
	return &TermBank{tab: map[string]*Term{}, funcs: map[string]*funcDecl{},
		symLo: map[*Term]*big.Int{}, symHi: map[*Term]*big.Int{}, bcache: map[*Term][2]*big.Int{}, known: map[*Term]*Term{}}
}

func (b *TermBank) mk(op, sort, name string, val *big.Int, args ...*Term) *Term {
	var sb strings.Builder
	sb.WriteString(op)
	sb.WriteByte('|')
	sb.WriteString(sort)
	sb.WriteByte('|')
	sb.WriteString(name)
	sb.WriteByte('|')
	if val != nil {
		sb.WriteString(val.String())
	}
	bound := op == "var"
	for _, a := range args {
		fmt.Fprintf(&sb, "|%d", a.id)
		if a.bound {
			bound = true
		}
	}
	k := sb.String()
	if t, ok := b.tab[k]; ok {
		if r, ok := b.known[t]; ok {
			return r
		}
		return t
	}
	b.nextID++
	t := &Term{Op: op, Args: args, Sort: sort, Name: name, Val: val, id: b.nextID, bound: bound}
	b.tab[k] = t
	return t
}

// ---------- leaves

func (b *TermBank) Int(v int64) *Term     { return b.mk("int", SInt, "", big.NewInt(v)) }
func (b *TermBank) IntB(v *big.Int) *Term { return b.mk("int", SInt, "", new(big.Int).Set(v)) }
func (b *TermBank) True() *Term           { return b.mk("true", SBool, "", nil) }
func (b *TermBank) False() *Term          { return b.mk("false", SBool, "", nil) }
func (b *TermBank) Bool(v bool) *Term {
	if v {
		return b.True()
	}
	return b.False()
}
func (b *TermBank) Const(name, sort string) *Term { return b.mk("const", sort, name, nil) }
func (b *TermBank) Var(name, sort string) *Term   { return b.mk("var", sort, name, nil) }
func (b *TermBank) Fresh(prefix, sort string) *Term {
	b.fresh++
	return b.Const(fmt.Sprintf("%s!%d", sanitize(prefix), b.fresh), sort)
}
func (b *TermBank) FreshName(prefix string) string {
	b.fresh++
	return fmt.Sprintf("%s!%d", sanitize(prefix), b.fresh)
}
func (b *TermBank) BV(v *big.Int, w int) *Term {
	m := new(big.Int).Lsh(big.NewInt(1), uint(w))
	x := new(big.Int).Mod(v, m)
	return b.mk("bv", SBV(w), "", x)
}
func (b *TermBank) ConstArr(sort string, elem *Term) *Term {
	return b.mk("constarr", sort, "", nil, elem)
}

func sanitize(s string) string {
	var sb strings.Builder
	for _, c := range s {
		switch {
		case c >= 'a' && c <= 'z', c >= 'A' && c <= 'Z', c >= '0' && c <= '9', c == '_', c == '.', c == '!', c == '$':
			sb.WriteRune(c)
		default:
			sb.WriteByte('_')
		}
	}
	return sb.String()
}

func (t *Term) IsLit() bool  { return t.Op == "int" || t.Op == "bv" }
func (t *Term) IsTrue() bool { return t.Op == "true" }
func (t *Term) IsFalse() bool {
	return t.Op == "false"
}
func (t *Term) Int64() (int64, bool) {
	if t.Op == "int" && t.Val.IsInt64() {
		return t.Val.Int64(), true
	}
	return 0, false
}

// ---------- uninterpreted functions

func (b *TermBank) Declare(name string, args []string, ret string) {
	if d, ok := b.funcs[name]; ok {
		if d.ret != ret || len(d.args) != len(args) {
			panic(fmt.Sprintf("function %s redeclared with another signature: %v->%s vs %v->%s", name, d.args, d.ret, args, ret))
		}
		return
	}
	b.funcs[name] = &funcDecl{name, args, ret}
}

func (b *TermBank) App(name string, ret string, args ...*Term) *Term {
	as := make([]string, len(args))
	for i, a := range args {
		as[i] = a.Sort
	}
	b.Declare(name, as, ret)
	return b.mk("app", ret, name, nil, args...)
}

// ---------- linear integer normal form

type lin struct {
	c     *big.Int
	terms map[*Term]*big.Int
}

func (b *TermBank) linOf(t *Term) lin {
	l := lin{c: new(big.Int), terms: map[*Term]*big.Int{}}
	b.linAcc(&l, t, big.NewInt(1))
	return l
}

func (b *TermBank) linAcc(l *lin, t *Term, k *big.Int) {
	switch t.Op {
	case "int":
		l.c.Add(l.c, new(big.Int).Mul(k, t.Val))
	case "+":
		for _, a := range t.Args {
			b.linAcc(l, a, k)
		}
	case "*":
		// normal form: (* lit x)
		if len(t.Args) == 2 && t.Args[0].Op == "int" {
			b.linAcc(l, t.Args[1], new(big.Int).Mul(k, t.Args[0].Val))
			return
		}
		fallthrough
	default:
		if c, ok := l.terms[t]; ok {
			c.Add(c, k)
			if c.Sign() == 0 {
				delete(l.terms, t)
			}
		} else if k.Sign() != 0 {
			l.terms[t] = new(big.Int).Set(k)
		}
	}
}

func (b *TermBank) fromLin(l lin) *Term {
	keys := make([]*Term, 0, len(l.terms))
	for t := range l.terms {
		keys = append(keys, t)
	}
	sort.Slice(keys, func(i, j int) bool { return keys[i].id < keys[j].id })
	var args []*Term
	for _, t := range keys {
		c := l.terms[t]
		if c.Cmp(big.NewInt(1)) == 0 {
			args = append(args, t)
		} else {
			args = append(args, b.mk("*", SInt, "", nil, b.IntB(c), t))
		}
	}
	if l.c.Sign() != 0 || len(args) == 0 {
		args = append(args, b.IntB(l.c))
	}
	if len(args) == 1 {
		return args[0]
	}
	return b.mk("+", SInt, "", nil, args...)
}

func (b *TermBank) Add(x, y *Term) *Term {
	if isBV(x.Sort) {
		return b.bvop("bvadd", x, y)
	}
	l := b.linOf(x)
	b.linAcc(&l, y, big.NewInt(1))
	return b.fromLin(l)
}
func (b *TermBank) Sub(x, y *Term) *Term {
	if isBV(x.Sort) {
		return b.bvop("bvsub", x, y)
	}
	l := b.linOf(x)
	b.linAcc(&l, y, big.NewInt(-1))
	return b.fromLin(l)
}
func (b *TermBank) Neg(x *Term) *Term {
	if isBV(x.Sort) {
		return b.mk("bvneg", x.Sort, "", nil, x)
	}
	return b.Sub(b.Int(0), x)
}
func (b *TermBank) Mul(x, y *Term) *Term {
	if isBV(x.Sort) {
		return b.bvop("bvmul", x, y)
	}
	if x.Op == "int" || y.Op == "int" {
		if y.Op != "int" {
			x, y = y, x
		}
		// x * lit
		l := lin{c: new(big.Int), terms: map[*Term]*big.Int{}}
		b.linAcc(&l, x, y.Val)
		return b.fromLin(l)
	}
	if x.id > y.id {
		x, y = y, x
	}
	return b.mk("*", SInt, "", nil, x, y)
}

// Div and Mod are SMT-LIB floor division (euclidean for positive divisors).
func (b *TermBank) Div(x, y *Term) *Term {
	if x.Op == "int" && y.Op == "int" && y.Val.Sign() > 0 {
		q := new(big.Int)
		m := new(big.Int)
		q.DivMod(x.Val, y.Val, m)
		return b.IntB(q)
	}
	if y.Op == "int" && y.Val.Cmp(big.NewInt(1)) == 0 {
		return x
	}
	if y.Op == "int" && y.Val.Sign() > 0 {
		lo, hi := b.Bounds(x)
		if lo != nil && hi != nil && lo.Sign() >= 0 && hi.Cmp(y.Val) < 0 {
			return b.Int(0)
		}
		// (c*y*z + r) div y with all coefficients multiples of y: exact
		l := b.linOf(x)
		all := true
		for _, c := range l.terms {
			if new(big.Int).Mod(c, y.Val).Sign() != 0 {
				all = false
				break
			}
		}
		if all && len(l.terms) > 0 && new(big.Int).Mod(l.c, y.Val).Sign() == 0 {
			nl := lin{c: new(big.Int).Div(l.c, y.Val), terms: map[*Term]*big.Int{}}
			for t, c := range l.terms {
				nl.terms[t] = new(big.Int).Div(c, y.Val)
			}
			return b.fromLin(nl)
		}
	}
	return b.mk("div", SInt, "", nil, x, y)
}
func (b *TermBank) Mod(x, y *Term) *Term {
	if x.Op == "int" && y.Op == "int" && y.Val.Sign() > 0 {
		q := new(big.Int)
		m := new(big.Int)
		q.DivMod(x.Val, y.Val, m)
		return b.IntB(m)
	}
	if y.Op == "int" && y.Val.Sign() > 0 {
		lo, hi := b.Bounds(x)
		if lo != nil && hi != nil && lo.Sign() >= 0 && hi.Cmp(y.Val) < 0 {
			return x
		}
		// byte k of a 64-bit value: canonical decomposition byte!k(v) (axiom: v = sum byte!k(v)*256^k)
		if y.Val.Cmp(big.NewInt(256)) == 0 {
			v, k := x, -1
			if x.Op == "div" && x.Args[1].Op == "int" {
				if n, ok := isPow2Big(x.Args[1].Val); ok && n%8 == 0 && n < 64 {
					v, k = x.Args[0], int(n/8)
				}
			} else {
				k = 0
			}
			if k >= 0 && v.Op != "int" {
				vlo, vhi := b.Bounds(v)
				if vlo != nil && vhi != nil && vlo.Sign() >= 0 && vhi.BitLen() <= 64 && vhi.BitLen() > 16 {
					t := b.App(fmt.Sprintf("byte!%d", k), SInt, v)
					b.SetBounds(t, new(big.Int), big.NewInt(255))
					return t
				}
			}
		}
		// drop summands that are multiples of y
		l := b.linOf(x)
		changed := false
		for t, c := range l.terms {
			if new(big.Int).Mod(c, y.Val).Sign() == 0 {
				delete(l.terms, t)
				changed = true
			}
		}
		cm := new(big.Int).Mod(l.c, y.Val)
		if cm.Cmp(l.c) != 0 && len(l.terms) == 0 {
			return b.IntB(cm)
		}
		if changed {
			nx := b.fromLin(l)
			return b.Mod(nx, y)
		}
		// (x mod (k*y)) mod y == x mod y
		if x.Op == "mod" && x.Args[1].Op == "int" && new(big.Int).Mod(x.Args[1].Val, y.Val).Sign() == 0 {
			return b.Mod(x.Args[0], y)
		}
	}
	return b.mk("mod", SInt, "", nil, x, y)
}

// ---------- bounds (interval analysis over Int terms), conservative

func (b *TermBank) SetBounds(t *Term, lo, hi *big.Int) {
	if lo != nil {
		b.symLo[t] = lo
	}
	if hi != nil {
		b.symHi[t] = hi
	}
}

func (b *TermBank) Bounds(t *Term) (lo, hi *big.Int) {
	if t.Sort != SInt {
		return nil, nil
	}
	if r, ok := b.bcache[t]; ok {
		return r[0], r[1]
	}
	lo, hi = b.bounds1(t)
	if l, ok := b.symLo[t]; ok && (lo == nil || l.Cmp(lo) > 0) {
		lo = l
	}
	if h, ok := b.symHi[t]; ok && (hi == nil || h.Cmp(hi) < 0) {
		hi = h
	}
	b.bcache[t] = [2]*big.Int{lo, hi}
	return
}

func (b *TermBank) bounds1(t *Term) (lo, hi *big.Int) {
	switch t.Op {
	case "int":
		return t.Val, t.Val
	case "+":
		lo, hi = new(big.Int), new(big.Int)
		for _, a := range t.Args {
			l, h := b.Bounds(a)
			if lo != nil {
				if l == nil {
					lo = nil
				} else {
					lo = new(big.Int).Add(lo, l)
				}
			}
			if hi != nil {
				if h == nil {
					hi = nil
				} else {
					hi = new(big.Int).Add(hi, h)
				}
			}
		}
		return
	case "*":
		if t.Args[0].Op == "int" {
			l, h := b.Bounds(t.Args[1])
			c := t.Args[0].Val
			if c.Sign() >= 0 {
				if l != nil {
					lo = new(big.Int).Mul(l, c)
				}
				if h != nil {
					hi = new(big.Int).Mul(h, c)
				}
			} else {
				if h != nil {
					lo = new(big.Int).Mul(h, c)
				}
				if l != nil {
					hi = new(big.Int).Mul(l, c)
				}
			}
			return
		}
		l0, h0 := b.Bounds(t.Args[0])
		l1, h1 := b.Bounds(t.Args[1])
		if l0 != nil && h0 != nil && l1 != nil && h1 != nil && l0.Sign() >= 0 && l1.Sign() >= 0 {
			return new(big.Int).Mul(l0, l1), new(big.Int).Mul(h0, h1)
		}
		return nil, nil
	case "mod":
		if t.Args[1].Op == "int" && t.Args[1].Val.Sign() > 0 {
			h := new(big.Int).Sub(t.Args[1].Val, big.NewInt(1))
			l, hh := b.Bounds(t.Args[0])
			if l != nil && l.Sign() >= 0 && hh != nil && hh.Cmp(h) < 0 {
				return l, hh
			}
			return new(big.Int), h
		}
		l1, h1 := b.Bounds(t.Args[1])
		if l1 != nil && l1.Sign() > 0 && h1 != nil {
			return new(big.Int), new(big.Int).Sub(h1, big.NewInt(1))
		}
		return nil, nil
	case "div":
		if t.Args[1].Op == "int" && t.Args[1].Val.Sign() > 0 {
			l, h := b.Bounds(t.Args[0])
			if l != nil {
				lo = floorDiv(l, t.Args[1].Val)
			}
			if h != nil {
				hi = floorDiv(h, t.Args[1].Val)
			}
			return
		}
		return nil, nil
	case "ite":
		l1, h1 := b.Bounds(t.Args[1])
		l2, h2 := b.Bounds(t.Args[2])
		if l1 != nil && l2 != nil {
			lo = l1
			if l2.Cmp(lo) < 0 {
				lo = l2
			}
		}
		if h1 != nil && h2 != nil {
			hi = h1
			if h2.Cmp(hi) > 0 {
				hi = h2
			}
		}
		return
	}
	return nil, nil
}

func isPow2Big(v *big.Int) (uint, bool) {
	if v.Sign() <= 0 {
		return 0, false
	}
	n := uint(v.BitLen() - 1)
	return n, new(big.Int).Lsh(big.NewInt(1), n).Cmp(v) == 0
}

func floorDiv(a, m *big.Int) *big.Int {
	q, r := new(big.Int), new(big.Int)
	q.DivMod(a, m, r)
	return q
}

// ---------- comparisons and boolean structure

func (b *TermBank) Eq(x, y *Term) *Term {
	if x == y {
		return b.True()
	}
	if x.Sort != y.Sort {
		panic(fmt.Sprintf("Eq: sort mismatch %s vs %s (%s = %s)", x.Sort, y.Sort, b.Show(x), b.Show(y)))
	}
	if x.IsLit() && y.IsLit() {
		return b.Bool(x.Val.Cmp(y.Val) == 0)
	}
	if x.Sort == SBool {
		if x.IsTrue() {
			return y
		}
		if y.IsTrue() {
			return x
		}
		if x.IsFalse() {
			return b.Not(y)
		}
		if y.IsFalse() {
			return b.Not(x)
		}
	}
	if x.Sort == SInt {
		d := b.Sub(x, y)
		if d.Op == "int" {
			return b.Bool(d.Val.Sign() == 0)
		}
		lo, hi := b.Bounds(d)
		if (lo != nil && lo.Sign() > 0) || (hi != nil && hi.Sign() < 0) {
			return b.False()
		}
		// canonical form: keep both sides but ordered
	}
	if x.id > y.id {
		x, y = y, x
	}
	return b.mk("=", SBool, "", nil, x, y)
}
func (b *TermBank) Ne(x, y *Term) *Term { return b.Not(b.Eq(x, y)) }

func (b *TermBank) Le(x, y *Term) *Term {
	if isBV(x.Sort) {
		panic("Le on bit-vectors: use BvCmp")
	}
	d := b.Sub(y, x) // y - x >= 0
	if d.Op == "int" {
		return b.Bool(d.Val.Sign() >= 0)
	}
	lo, hi := b.Bounds(d)
	if lo != nil && lo.Sign() >= 0 {
		return b.True()
	}
	if hi != nil && hi.Sign() < 0 {
		return b.False()
	}
	return b.mk("<=", SBool, "", nil, x, y)
}
func (b *TermBank) Lt(x, y *Term) *Term {
	d := b.Sub(y, x) // y - x > 0
	if d.Op == "int" {
		return b.Bool(d.Val.Sign() > 0)
	}
	lo, hi := b.Bounds(d)
	if lo != nil && lo.Sign() > 0 {
		return b.True()
	}
	if hi != nil && hi.Sign() <= 0 {
		return b.False()
	}
	return b.mk("<", SBool, "", nil, x, y)
}
func (b *TermBank) Ge(x, y *Term) *Term { return b.Le(y, x) }
func (b *TermBank) Gt(x, y *Term) *Term { return b.Lt(y, x) }

func (b *TermBank) Not(x *Term) *Term {
	switch x.Op {
	case "true":
		return b.False()
	case "false":
		return b.True()
	case "not":
		return x.Args[0]
	case "<":
		return b.Le(x.Args[1], x.Args[0])
	case "<=":
		return b.Lt(x.Args[1], x.Args[0])
	}
	return b.mk("not", SBool, "", nil, x)
}

func (b *TermBank) And(xs ...*Term) *Term {
	var out []*Term
	seen := map[*Term]bool{}
	for _, x := range xs {
		if x.Sort != SBool {
			panic("And: non-bool " + b.Show(x))
		}
		if x.IsTrue() {
			continue
		}
		if x.IsFalse() {
			return b.False()
		}
		if x.Op == "and" {
			for _, a := range x.Args {
				if !seen[a] {
					seen[a] = true
					out = append(out, a)
				}
			}
			continue
		}
		if !seen[x] {
			seen[x] = true
			out = append(out, x)
		}
	}
	for _, x := range out {
		if seen[b.Not(x)] {
			return b.False()
		}
	}
	if len(out) == 0 {
		return b.True()
	}
	if len(out) == 1 {
		return out[0]
	}
	return b.mk("and", SBool, "", nil, out...)
}

func (b *TermBank) Or(xs ...*Term) *Term {
	var out []*Term
	seen := map[*Term]bool{}
	for _, x := range xs {
		if x.Sort != SBool {
			panic("Or: non-bool " + b.Show(x))
		}
		if x.IsFalse() {
			continue
		}
		if x.IsTrue() {
			return b.True()
		}
		if x.Op == "or" {
			for _, a := range x.Args {
				if !seen[a] {
					seen[a] = true
					out = append(out, a)
				}
			}
			continue
		}
		if !seen[x] {
			seen[x] = true
			out = append(out, x)
		}
	}
	for _, x := range out {
		if seen[b.Not(x)] {
			return b.True()
		}
	}
	if len(out) == 0 {
		return b.False()
	}
	if len(out) == 1 {
		return out[0]
	}
	return b.mk("or", SBool, "", nil, out...)
}

func (b *TermBank) Implies(x, y *Term) *Term {
	if x.IsTrue() {
		return y
	}
	if x.IsFalse() || y.IsTrue() {
		return b.True()
	}
	if y.IsFalse() {
		return b.Not(x)
	}
	return b.mk("=>", SBool, "", nil, x, y)
}

func (b *TermBank) Ite(c, x, y *Term) *Term {
	if c.IsTrue() {
		return x
	}
	if c.IsFalse() {
		return y
	}
	if x == y {
		return x
	}
	if x.Sort != y.Sort {
		panic(fmt.Sprintf("Ite: sort mismatch %s vs %s", x.Sort, y.Sort))
	}
	if x.Sort == SBool {
		if x.IsTrue() && y.IsFalse() {
			return c
		}
		if x.IsFalse() && y.IsTrue() {
			return b.Not(c)
		}
	}
	return b.mk("ite", x.Sort, "", nil, c, x, y)
}

// ---------- arrays

func (b *TermBank) Select(a, i *Term) *Term {
	es := arrElem(a.Sort)
	for {
		switch a.Op {
		case "store":
			e := b.Eq(a.Args[1], i)
			if e.IsTrue() {
				return a.Args[2]
			}
			if e.IsFalse() {
				a = a.Args[0]
				continue
			}
		case "constarr":
			return a.Args[0]
		case "ite":
			// select through ite of arrays keeps terms small when both sides resolve
		}
		break
	}
	return b.mk("select", es, "", nil, a, i)
}

func (b *TermBank) Store(a, i, v *Term) *Term {
	if arrElem(a.Sort) != v.Sort {
		panic(fmt.Sprintf("Store: element sort mismatch %s into %s", v.Sort, a.Sort))
	}
	// store over store at the same index
	if a.Op == "store" && a.Args[1] == i {
		return b.Store(a.Args[0], i, v)
	}
	// store(a, i, select(a, i)) == a
	if v.Op == "select" && v.Args[0] == a && v.Args[1] == i {
		return a
	}
	return b.mk("store", a.Sort, "", nil, a, i, v)
}

// ---------- quantifiers

func (b *TermBank) Forall(vars []*Term, body *Term) *Term {
	if body.IsTrue() {
		return body
	}
	if body.IsFalse() {
		return body
	}
	args := append([]*Term{body}, vars...)
	t := b.mk("forall", SBool, "", nil, args...)
	t.bound = b.stillBound(body, vars)
	return t
}
func (b *TermBank) Exists(vars []*Term, body *Term) *Term {
	if body.IsTrue() || body.IsFalse() {
		return body
	}
	args := append([]*Term{body}, vars...)
	t := b.mk("exists", SBool, "", nil, args...)
	t.bound = b.stillBound(body, vars)
	return t
}

// stillBound reports whether body has bound variables other than vars (nested quantifiers).
func (b *TermBank) stillBound(body *Term, vars []*Term) bool {
	vs := map[*Term]bool{}
	for _, v := range vars {
		vs[v] = true
	}
	seen := map[*Term]bool{}
	var rec func(t *Term, bnd map[*Term]bool) bool
	rec = func(t *Term, bnd map[*Term]bool) bool {
		if !t.bound {
			return false
		}
		if t.Op == "var" {
			return !bnd[t]
		}
		if t.Op == "forall" || t.Op == "exists" {
			nb := map[*Term]bool{}
			for k := range bnd {
				nb[k] = true
			}
			for _, v := range t.Args[1:] {
				nb[v] = true
			}
			return rec(t.Args[0], nb)
		}
		if seen[t] && len(bnd) == len(vs) {
			return false
		}
		for _, a := range t.Args {
			if rec(a, bnd) {
				return true
			}
		}
		if len(bnd) == len(vs) {
			seen[t] = true
		}
		return false
	}
	return rec(body, vs)
}

// ---------- bit-vectors

func (b *TermBank) bvop(op string, x, y *Term) *Term {
	if x.Sort != y.Sort {
		panic(fmt.Sprintf("%s: sort mismatch %s vs %s", op, x.Sort, y.Sort))
	}
	w := bvWidth(x.Sort)
	if x.Op == "bv" && y.Op == "bv" {
		m := new(big.Int).Lsh(big.NewInt(1), uint(w))
		r := new(big.Int)
		ok := true
		switch op {
		case "bvadd":
			r.Add(x.Val, y.Val)
		case "bvsub":
			r.Sub(x.Val, y.Val)
		case "bvmul":
			r.Mul(x.Val, y.Val)
		case "bvand":
			r.And(x.Val, y.Val)
		case "bvor":
			r.Or(x.Val, y.Val)
		case "bvxor":
			r.Xor(x.Val, y.Val)
		case "bvshl":
			if y.Val.Cmp(big.NewInt(int64(w))) >= 0 {
				r.SetInt64(0)
			} else {
				r.Lsh(x.Val, uint(y.Val.Int64()))
			}
		case "bvlshr":
			if y.Val.Cmp(big.NewInt(int64(w))) >= 0 {
				r.SetInt64(0)
			} else {
				r.Rsh(x.Val, uint(y.Val.Int64()))
			}
		default:
			ok = false
		}
		if ok {
			r.Mod(r, m)
			return b.BV(r, w)
		}
	}
	zero := func(t *Term) bool { return t.Op == "bv" && t.Val.Sign() == 0 }
	switch op {
	case "bvadd", "bvor", "bvxor":
		if zero(x) {
			return y
		}
		if zero(y) {
			return x
		}
		if op == "bvxor" && x == y {
			return b.BV(new(big.Int), w)
		}
		if op == "bvor" && x == y {
			return x
		}
	case "bvsub", "bvshl", "bvlshr", "bvashr":
		if zero(y) {
			return x
		}
	case "bvand":
		if zero(x) || zero(y) {
			return b.BV(new(big.Int), w)
		}
		if x == y {
			return x
		}
		ones := new(big.Int).Sub(new(big.Int).Lsh(big.NewInt(1), uint(w)), big.NewInt(1))
		if x.Op == "bv" && x.Val.Cmp(ones) == 0 {
			return y
		}
		if y.Op == "bv" && y.Val.Cmp(ones) == 0 {
			return x
		}
	}
	switch op {
	case "bvadd", "bvmul", "bvand", "bvor", "bvxor":
		if x.id > y.id {
			x, y = y, x
		}
	}
	return b.mk(op, x.Sort, "", nil, x, y)
}

func (b *TermBank) BvOp(op string, x, y *Term) *Term { return b.bvop(op, x, y) }
func (b *TermBank) BvNot(x *Term) *Term {
	if x.Op == "bv" {
		w := bvWidth(x.Sort)
		ones := new(big.Int).Sub(new(big.Int).Lsh(big.NewInt(1), uint(w)), big.NewInt(1))
		return b.BV(new(big.Int).Xor(x.Val, ones), w)
	}
	return b.mk("bvnot", x.Sort, "", nil, x)
}
func (b *TermBank) BvCmp(op string, x, y *Term) *Term {
	if x.Op == "bv" && y.Op == "bv" {
		w := bvWidth(x.Sort)
		sx, sy := x.Val, y.Val
		if strings.HasPrefix(op, "bvs") {
			half := new(big.Int).Lsh(big.NewInt(1), uint(w-1))
			full := new(big.Int).Lsh(big.NewInt(1), uint(w))
			if sx.Cmp(half) >= 0 {
				sx = new(big.Int).Sub(sx, full)
			}
			if sy.Cmp(half) >= 0 {
				sy = new(big.Int).Sub(sy, full)
			}
		}
		c := sx.Cmp(sy)
		switch op {
		case "bvult", "bvslt":
			return b.Bool(c < 0)
		case "bvule", "bvsle":
			return b.Bool(c <= 0)
		case "bvugt", "bvsgt":
			return b.Bool(c > 0)
		case "bvuge", "bvsge":
			return b.Bool(c >= 0)
		}
	}
	return b.mk(op, SBool, "", nil, x, y)
}
func (b *TermBank) Extract(hi, lo int, x *Term) *Term {
	w := bvWidth(x.Sort)
	if lo == 0 && hi == w-1 {
		return x
	}
	if x.Op == "bv" {
		v := new(big.Int).Rsh(x.Val, uint(lo))
		return b.BV(v, hi-lo+1)
	}
	return b.mk("extract", SBV(hi-lo+1), fmt.Sprintf("%d %d", hi, lo), nil, x)
}
func (b *TermBank) Concat(x, y *Term) *Term {
	wx, wy := bvWidth(x.Sort), bvWidth(y.Sort)
	if x.Op == "bv" && y.Op == "bv" {
		v := new(big.Int).Lsh(x.Val, uint(wy))
		v.Or(v, y.Val)
		return b.BV(v, wx+wy)
	}
	return b.mk("concat", SBV(wx+wy), "", nil, x, y)
}
func (b *TermBank) ZeroExt(x *Term, to int) *Term {
	w := bvWidth(x.Sort)
	if to == w {
		return x
	}
	if to < w {
		return b.Extract(to-1, 0, x)
	}
	if x.Op == "bv" {
		return b.BV(x.Val, to)
	}
	return b.mk("zext", SBV(to), fmt.Sprintf("%d", to-w), nil, x)
}
func (b *TermBank) SignExt(x *Term, to int) *Term {
	w := bvWidth(x.Sort)
	if to == w {
		return x
	}
	if to < w {
		return b.Extract(to-1, 0, x)
	}
	if x.Op == "bv" {
		v := new(big.Int).Set(x.Val)
		if v.Bit(w-1) == 1 {
			v.Sub(v, new(big.Int).Lsh(big.NewInt(1), uint(w)))
		}
		return b.BV(v, to)
	}
	return b.mk("sext", SBV(to), fmt.Sprintf("%d", to-w), nil, x)
}
func (b *TermBank) RotL(x *Term, k int) *Term {
	w := bvWidth(x.Sort)
	k = ((k % w) + w) % w
	if k == 0 {
		return x
	}
	if x.Op == "bv" {
		v := new(big.Int).Lsh(x.Val, uint(k))
		v.Or(v, new(big.Int).Rsh(x.Val, uint(w-k)))
		return b.BV(v, w)
	}
	return b.mk("rotl", x.Sort, fmt.Sprintf("%d", k), nil, x)
}

// small int<->bv bridges (only for widths <= 16, or literals)
func (b *TermBank) Int2BV(x *Term, w int) *Term {
	if x.Op == "int" {
		return b.BV(x.Val, w)
	}
	if x.Op == "bv2nat" && bvWidth(x.Args[0].Sort) == w {
		return x.Args[0]
	}
	return b.mk("int2bv", SBV(w), fmt.Sprintf("%d", w), nil, x)
}
func (b *TermBank) BV2Int(x *Term) *Term {
	if x.Op == "bv" {
		return b.IntB(x.Val)
	}
	t := b.mk("bv2nat", SInt, "", nil, x)
	w := bvWidth(x.Sort)
	b.SetBounds(t, new(big.Int), new(big.Int).Sub(new(big.Int).Lsh(big.NewInt(1), uint(w)), big.NewInt(1)))
	return t
}

// ---------- substitution (used for bound-variable instantiation and spec macros)

func (b *TermBank) Subst(t *Term, m map[*Term]*Term) *Term {
	cache := map[*Term]*Term{}
	var rec func(t *Term) *Term
	rec = func(t *Term) *Term {
		if r, ok := m[t]; ok {
			return r
		}
		if len(t.Args) == 0 {
			return t
		}
		if r, ok := cache[t]; ok {
			return r
		}
		na := make([]*Term, len(t.Args))
		ch := false
		for i, a := range t.Args {
			na[i] = rec(a)
			if na[i] != a {
				ch = true
			}
		}
		r := t
		if ch {
			r = b.Rebuild(t, na)
		}
		cache[t] = r
		return r
	}
	return rec(t)
}

// Rebuild re-applies the smart constructor of t.Op to new arguments.
func (b *TermBank) Rebuild(t *Term, a []*Term) *Term {
	switch t.Op {
	case "+":
		r := a[0]
		for _, x := range a[1:] {
			r = b.Add(r, x)
		}
		return r
	case "*":
		return b.Mul(a[0], a[1])
	case "div":
		return b.Div(a[0], a[1])
	case "mod":
		return b.Mod(a[0], a[1])
	case "=":
		return b.Eq(a[0], a[1])
	case "<":
		return b.Lt(a[0], a[1])
	case "<=":
		return b.Le(a[0], a[1])
	case "not":
		return b.Not(a[0])
	case "and":
		return b.And(a...)
	case "or":
		return b.Or(a...)
	case "=>":
		return b.Implies(a[0], a[1])
	case "ite":
		return b.Ite(a[0], a[1], a[2])
	case "select":
		return b.Select(a[0], a[1])
	case "store":
		return b.Store(a[0], a[1], a[2])
	case "forall":
		return b.Forall(a[1:], a[0])
	case "exists":
		return b.Exists(a[1:], a[0])
	case "bvadd", "bvsub", "bvmul", "bvand", "bvor", "bvxor", "bvshl", "bvlshr", "bvashr", "bvudiv", "bvurem":
		return b.bvop(t.Op, a[0], a[1])
	case "bvnot":
		return b.BvNot(a[0])
	case "bvult", "bvule", "bvugt", "bvuge", "bvslt", "bvsle", "bvsgt", "bvsge":
		return b.BvCmp(t.Op, a[0], a[1])
	case "extract":
		var hi, lo int
		fmt.Sscanf(t.Name, "%d %d", &hi, &lo)
		return b.Extract(hi, lo, a[0])
	case "concat":
		return b.Concat(a[0], a[1])
	case "zext":
		return b.ZeroExt(a[0], bvWidth(t.Sort))
	case "sext":
		return b.SignExt(a[0], bvWidth(t.Sort))
	case "rotl":
		var k int
		fmt.Sscanf(t.Name, "%d", &k)
		return b.RotL(a[0], k)
	case "bv2nat":
		return b.BV2Int(a[0])
	case "int2bv":
		return b.Int2BV(a[0], bvWidth(t.Sort))
	}
	return b.mk(t.Op, t.Sort, t.Name, t.Val, a...)
}

// ---------- printing

func (b *TermBank) Show(t *Term) string {
	s := b.sexpr(t, nil)
	if len(s) > 400 {
		return s[:400] + "..."
	}
	return s
}

func litStr(t *Term) string {
	if t.Op == "int" {
		if t.Val.Sign() < 0 {
			return "(- " + new(big.Int).Neg(t.Val).String() + ")"
		}
		return t.Val.String()
	}
	w := bvWidth(t.Sort)
	if w%4 == 0 {
		return fmt.Sprintf("#x%0*s", w/4, t.Val.Text(16))
	}
	return fmt.Sprintf("#b%0*s", w, t.Val.Text(2))
}

func quoteSym(s string) string {
	for _, c := range s {
		if !(c >= 'a' && c <= 'z' || c >= 'A' && c <= 'Z' || c >= '0' && c <= '9' || strings.ContainsRune("_.!$-", c)) {
			return "|" + s + "|"
		}
	}
	return s
}

// sexpr prints t; names maps already-defined shared nodes to their names.
func (b *TermBank) sexpr(t *Term, names map[*Term]string) string {
	if n, ok := names[t]; ok {
		return n
	}
	switch t.Op {
	case "int", "bv":
		return litStr(t)
	case "true", "false":
		return t.Op
	case "const", "var":
		return quoteSym(t.Name)
	case "constarr":
		return "((as const " + t.Sort + ") " + b.sexpr(t.Args[0], names) + ")"
	case "app":
		if len(t.Args) == 0 {
			return quoteSym(t.Name)
		}
		var sb strings.Builder
		sb.WriteString("(" + quoteSym(t.Name))
		for _, a := range t.Args {
			sb.WriteByte(' ')
			sb.WriteString(b.sexpr(a, names))
		}
		sb.WriteByte(')')
		return sb.String()
	case "forall", "exists":
		var sb strings.Builder
		sb.WriteString("(" + t.Op + " (")
		for _, v := range t.Args[1:] {
			sb.WriteString("(" + quoteSym(v.Name) + " " + v.Sort + ")")
		}
		sb.WriteString(") ")
		sb.WriteString(b.sexpr(t.Args[0], names))
		sb.WriteByte(')')
		return sb.String()
	case "extract":
		return "((_ extract " + t.Name + ") " + b.sexpr(t.Args[0], names) + ")"
	case "zext":
		return "((_ zero_extend " + t.Name + ") " + b.sexpr(t.Args[0], names) + ")"
	case "sext":
		return "((_ sign_extend " + t.Name + ") " + b.sexpr(t.Args[0], names) + ")"
	case "rotl":
		return "((_ rotate_left " + t.Name + ") " + b.sexpr(t.Args[0], names) + ")"
	case "int2bv":
		return "((_ int2bv " + t.Name + ") " + b.sexpr(t.Args[0], names) + ")"
	}
	var sb strings.Builder
	sb.WriteString("(" + t.Op)
	for _, a := range t.Args {
		sb.WriteByte(' ')
		sb.WriteString(b.sexpr(a, names))
	}
	sb.WriteByte(')')
	return sb.String()
}

// Script builds an SMT-LIB2 script that is unsat iff (and assumptions) => goal is valid.
// prelude is raw SMT-LIB text (spec functions); symbols it defines are listed in preDefined.
func (b *TermBank) Script(assumptions []*Term, goal *Term, pre *preludeInfo, extra string, extraAxioms func(seen map[*Term]bool) []*Term) string {
	b.mu.Lock()
	defer b.mu.Unlock()
	preDefined := map[string]bool{}
	if pre != nil {
		for k := range pre.defined {
			preDefined[k] = true
		}
	}
	for _, sx := range splitSexprs(extra) {
		if m := reDefHead.FindStringSubmatch(sx); m != nil {
			preDefined[m[2]] = true
		}
	}
	var roots []*Term
	roots = append(roots, assumptions...)
	if goal != nil {
		roots = append(roots, goal)
	}
	// collect nodes; axioms may be instantiated from occurring terms
	seen := map[*Term]bool{}
	var order []*Term
	refs := map[*Term]int{}
	var visit func(t *Term)
	visit = func(t *Term) {
		refs[t]++
		if seen[t] {
			return
		}
		seen[t] = true
		for _, a := range t.Args {
			visit(a)
		}
		order = append(order, t)
	}
	for _, r := range roots {
		visit(r)
	}
	var axioms []*Term
	if extraAxioms != nil {
		// iterate to a fixpoint: axioms may introduce new terms
		for iter := 0; iter < 4; iter++ {
			ax := extraAxioms(seen)
			if len(ax) == len(axioms) {
				break
			}
			for _, a := range ax[len(axioms):] {
				visit(a)
			}
			axioms = ax
		}
	}
	var sb strings.Builder
	sb.WriteString("(set-option :produce-models true)\n(set-logic ALL)\n")
	// declarations
	declared := map[string]bool{}
	var decls []string
	for _, t := range order {
		switch t.Op {
		case "const":
			if !declared[t.Name] && !preDefined[t.Name] {
				declared[t.Name] = true
				decls = append(decls, fmt.Sprintf("(declare-fun %s () %s)\n", quoteSym(t.Name), t.Sort))
			}
		case "app":
			if !declared[t.Name] && !preDefined[t.Name] {
				declared[t.Name] = true
				d := b.funcs[t.Name]
				decls = append(decls, fmt.Sprintf("(declare-fun %s (%s) %s)\n", quoteSym(t.Name), strings.Join(d.args, " "), d.ret))
			}
		}
	}
	sort.Strings(decls)
	for _, d := range decls {
		sb.WriteString(d)
	}
	if pre != nil {
		used := map[string]bool{}
		for _, t := range order {
			if t.Op == "const" || t.Op == "app" {
				used[t.Name] = true
			}
		}
		for _, sym := range reSym.FindAllString(extra, -1) {
			used[sym] = true
		}
		ptxt := pre.selectFor(used)
		if goal == nil {
			// satisfiability (cover) query: recursive definitions become uninterpreted and
			// quantified axioms are dropped -- an over-approximation that keeps the query decidable
			ptxt = relaxPrelude(ptxt)
		}
		sb.WriteString(ptxt)
	}
	sb.WriteString(extra)
	// shared closed subterms become define-funs
	names := map[*Term]string{}
	for _, t := range order {
		if t.bound || len(t.Args) == 0 || refs[t] < 2 {
			continue
		}
		if t.Op == "constarr" {
			continue
		}
		n := fmt.Sprintf("n!%d", t.id)
		// print definition with already-named children
		def := b.sexpr1(t, names)
		fmt.Fprintf(&sb, "(define-fun %s () %s %s)\n", n, t.Sort, def)
		names[t] = n
	}
	for _, a := range axioms {
		fmt.Fprintf(&sb, "(assert %s)\n", b.sexpr(a, names))
	}
	for _, a := range assumptions {
		fmt.Fprintf(&sb, "(assert %s)\n", b.sexpr(a, names))
	}
	if goal != nil {
		fmt.Fprintf(&sb, "(assert (not %s))\n", b.sexpr(goal, names))
	}
	sb.WriteString("(check-sat)\n")
	return sb.String()
}

// sexpr1 prints the node itself expanded (not by its own name) but children by names.
func (b *TermBank) sexpr1(t *Term, names map[*Term]string) string {
	saved, had := names[t]
	if had {
		delete(names, t)
	}
	s := b.sexpr(t, names)
	if had {
		names[t] = saved
	}
	return s
}

var reRecHead = regexp.MustCompile(`^\(\s*define-fun-rec\s+([^\s()]+)\s*\(`)

func relaxPrelude(txt string) string {
	var sb strings.Builder
	for _, sx := range splitSexprs(txt) {
		if strings.HasPrefix(sx, "(assert") && strings.Contains(sx, "forall") {
			continue
		}
		if m := reRecHead.FindStringSubmatchIndex(sx); m != nil {
			name := sx[m[2]:m[3]]
			// parameter list starts at the paren matched last by the regexp
			i := m[1] - 1
			d := 0
			j := i
			for ; j < len(sx); j++ {
				if sx[j] == '(' {
					d++
				} else if sx[j] == ')' {
					d--
					if d == 0 {
						break
					}
				}
			}
			params := sx[i+1 : j]
			var sorts []string
			for _, p := range splitSexprs(params) {
				inner := strings.TrimSpace(p[1 : len(p)-1])
				k := strings.IndexAny(inner, " \t\n")
				sorts = append(sorts, strings.TrimSpace(inner[k+1:]))
			}
			// return sort: next s-expression or atom after the parameter list
			rest := strings.TrimSpace(sx[j+1:])
			ret := ""
			if strings.HasPrefix(rest, "(") {
				ret = splitSexprs(rest)[0]
			} else {
				ret = strings.Fields(rest)[0]
			}
			fmt.Fprintf(&sb, "(declare-fun %s (%s) %s)\n", name, strings.Join(sorts, " "), ret)
			continue
		}
		sb.WriteString(sx)
		sb.WriteByte('\n')
	}
	return sb.String()
}
