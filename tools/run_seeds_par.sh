#!/bin/sh
# usage: run_seeds_par.sh [-j N] <seed id>...   (e.g. C11-6 C04-7)
# Runs the quick check of each seed's property against a scratch copy of /repo with the seed applied
# (VERIF_REPO), N at a time; /repo itself and the committed evidence are not touched.
export GOFLAGS=-mod=mod GOPROXY=off GOSUMDB=off GOTOOLCHAIN=local
j=3
if [ "$1" = "-j" ]; then j=$2; shift 2; fi
one() {
  n=$1; p=${n%-*}
  s=$(mktemp -d /tmp/seedpar-XXXX)
  rsync -a --exclude .git /repo/ $s/repo/
  if ! (cd $s/repo && patch -p1 -s < /verif/seeded/$n/patch.diff); then echo "$n: patch does not apply"; rm -rf $s; return; fi
  VERIF_REPO=$s/repo VERIF_OUT=$s/out timeout 1500 /verif/bin/gvc check $p quick > $s/log 2>&1; code=$?
  echo "$n: exit=$code violations=$(grep -c '^VIOLATION' $s/log): $(grep '^VIOLATION\|^ENGINE' $s/log | sed 's/.*obligation=\([^ ]*\) solver=\([^ ]*\).*/\1[\2]/' | head -5 | tr '\n' ' ')"
  rm -rf $s
}
if [ "${1:-}" = "--one" ]; then one $2; exit 0; fi
printf '%s\n' "$@" | xargs -P $j -I{} sh $0 --one {}
