#!/bin/sh
# usage: verify_seed.sh <seed dir> <pkg dir relative to repo root> [extra test pkgs...]
# Confirms in a scratch worktree: demo passes on the clean tree; with the patch the existing tests
# of the package pass and the demo fails.
set -u
export GOFLAGS=-mod=mod GOPROXY=off GOSUMDB=off GOTOOLCHAIN=local
seed=$1; pkg=$2; shift 2
wt=$(mktemp -d /tmp/wt-verify-XXXX); rmdir $wt
git -C /repo worktree add -q --detach $wt HEAD || exit 2
trap 'git -C /repo worktree remove --force '$wt' >/dev/null 2>&1' EXIT
cd $wt
cp $seed/demo_test.go $pkg/zz_seed_demo_test.go
if go test -count=1 -vet=off -run . ./$pkg >/tmp/vs_clean.log 2>&1; then clean=pass; else clean=FAIL; fi
rm $pkg/zz_seed_demo_test.go
git apply $seed/patch.diff || { echo "patch does not apply"; exit 2; }
if go test -count=1 -vet=off ./$pkg "$@" >/tmp/vs_exist.log 2>&1; then exist=pass; else exist=FAIL; fi
cp $seed/demo_test.go $pkg/zz_seed_demo_test.go
if go test -count=1 -vet=off -run . ./$pkg >/tmp/vs_demo.log 2>&1; then demo=pass; else demo=FAIL; fi
echo "clean-tree demo: $clean; patched existing tests: $exist; patched demo: $demo"
[ "$clean" = pass ] && [ "$exist" = pass ] && [ "$demo" = FAIL ]
