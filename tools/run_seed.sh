#!/bin/sh
# usage: run_seed.sh <seed id, e.g. C11-3>
# Applies /verif/seeded/<id>/patch.diff to /repo, runs the quick check of its property with the
# evidence and replay output redirected to a scratch directory (so the committed evidence of the clean
# tree is not overwritten), prints the violated obligations and restores /repo.
set -u
n=$1; p=${n%-*}
[ -z "$(git -C /repo status --porcelain --untracked-files=no)" ] || { echo "/repo has uncommitted changes"; exit 2; }
out=$(mktemp -d /tmp/seedrun-XXXX)
git -C /repo apply /verif/seeded/$n/patch.diff || { echo "$n: patch does not apply"; rm -rf $out; exit 2; }
VERIF_OUT=$out /verif/check $p quick > $out/log 2>&1; code=$?
git -C /repo checkout -- .
echo "$n: exit=$code violations=$(grep -c '^VIOLATION' $out/log): $(grep '^VIOLATION\|^ENGINE' $out/log | sed 's/.*obligation=\([^ ]*\).*/\1/' | head -4 | tr '\n' ' ')"
rm -rf $out
