#!/usr/bin/env python3
"""Regenerates /verif/MANIFEST.json from the table below (run after changing what is claimed)."""
import json, subprocess, os

TECH = "contract-based deductive verification: weakest-precondition/symbolic-execution VCs over go/ssa of the real functions, contracts as //@ comments in /repo (tag verif), discharged by z3/z3-new/cvc5"

# property -> (level text, level note, design ref)
CLAIMED = {
 "C18": ("Proof (unbounded in message length, symbolic block size 1..255) that each Pad/Unpad pair under contract "
         "meets its postconditions: documented padded form, append-only Pad, Unpad(Pad(m))==m, accept-set "
         "(Unpad accepts only what Pad produces), no panic; every obligation is an SMT query generated from the SSA of the real function.",
         "Trusted: go/ssa translation, SMT solvers, errors.New contract; int arithmetic mathematical with overflow obligations; slices <= 2^40 elements.",
         "DESIGN.md §4 C18"),
}

CLAIMED["C19"] = ("Proof over an abstract block cipher (uninterpreted ENC/DEC of key identity and block; block sizes 8 and 16) that each of the eight MAC "
 "constructions returns exactly `size` bytes equal to its GB/T 15852.1 definition (CBC chaining as a recursive spec function, unbounded message length): CBC-MAC, EMAC, ANSI retail, "
 "MAC-DES, LMAC, TR-CBC-MAC, CBCR, and CMAC as a streaming state machine over a ghost message (Write for every split, Sum leaves the state untouched, "
 "Reset/MAC depend only on key material and message: history independence), subkey doubling with R_64/R_128, one-bit shifts; lemmas (CBC extensionality/append) by induction. "
 "One known finding (CBCR padded case: shift instead of rotation, D21).",
 "Trusted: cipher.Block and padding.Padding interface contracts and subtle.XORBytes (assumed), block size 8 or 16, the byte-level spec functions in /verif/specs (CBC, CMACBLK, ROTL1/ROTR1, M2ARR), "
 "callers do not pass slices that alias the MAC object's internal arrays.",
 "DESIGN.md §4 C19")

CLAIMED["C01"] = ("Proof, over an uninterpreted compression function and a ghost message, that the streaming digest keeps its invariant for every split of "
 "Write calls (h = fold of CF over the whole blocks of the message, buffer = the tail), that checkSum/Sum return the big-endian words of the fold over M||pad(L) "
 "(padding bytes and length field proved equal to the standard's), that Sum leaves the state untouched (frame), Reset restarts; that kdfGeneric returns exactly "
 "Ha_1||Ha_2||... truncated (GB/T 32918.4 KDF, unbounded length), Kdf/kdf dispatch and the lane glue (kdfBy4/kdfBy8: lane sizing blocks*64 == nx+4+t+8, all indexing in range). "
 "The assembly tiers are assumed equal to the fold (trusted contracts) and backed by a bounded differential check, labelled bounded. Not decided: MarshalBinary/UnmarshalBinary round trip "
 "(path explosion in AppendBinary), the pure-Go compression rounds against the standard's round functions, kdf.Kdf generic paths.",
 "Trusted: blockAVX2/blockSIMD/blockAMD64, blockMultBy4/8, copyResultsBy4/8 (assembly; assumed contracts + bounded check), SM3CF uninterpreted, spec functions SM3F/SM3W/SM3PADARR/CAT, "
 "messages shorter than 2^61 bytes, callers do not pass slices aliasing the digest's internal buffer.",
 "DESIGN.md §4 C01")

CLAIMED["C03"] = ("Partial proof. Proved: generic ECB encrypt/decrypt equals the per-block definition over an abstract block cipher for every length, separate and exactly-overlapping buffers "
 "(unbounded loop invariant), frame = dst[0..len(src)]; generic XTS encrypter/decrypter (sequential and batched paths): memory safety, frame, termination and the data-unit structure "
 "(with a partial last block the block loops leave the last full block for ciphertext stealing; every return has processed the whole unit); the SM4 assembly wrappers for XTS and ECB "
 "(every call satisfies the routine's assumed precondition, incl. the decrypt tail condition); HCTR universal hash feeds exactly the blocks of M||T zero-padded (one known finding, D4), "
 "mul/updateBlock memory safety; BC and OFBNLF modes (encrypt and decrypt, separate or in place): the mode's recurrence holds at every iteration with the operands' values at that point "
 "(BC: C_i = E_K(P_i xor F_i), F_{i+1} = F_i xor C_i; OFBNLF: K_i = E_K(K_{i-1}), C_i = E_{K_i}(P_i)), the chaining state left in the object is the one the next call continues from, memory safety, frame and termination for every length."
 " SM4 mode glue: the CTR counter generator (*ctr).genCtr writes the previous counter block plus one as a 128-bit big-endian integer (the carry travels through all sixteen bytes, stated per byte) and nothing else; "
 "CBC encryption through the single-block routine is memory safe for every number of blocks, writes only dst[0..len(src)) and the content of the object's own iv buffer and never keeps a reference to caller memory (SetIV likewise copies)."
 " The fused assembly is assumed and backed by a bounded differential check (labelled bounded). "
 "Not decided here: byte-level equality of XTS/HCTR outputs with their textbook definitions, the CBC/CTR recurrences of the SM4 glue and CBC/CFB/OFB/CTR of crypto/cipher, the SM4 assembly fast paths of the modes, arm64/ppc64 assembly.",
 "Trusted: encryptSm4Xts/decryptSm4Xts(GB), encryptSm4Ecb, decryptBlocksChain, mul2/doubleTweaks assembly, (*sm4CipherAsm).encrypt (one block = abstract E_K), cipher.Block/concurrentBlocks interface contracts, alias.InexactOverlap (unsafe), subtle.XORBytes.",
 "DESIGN.md §0.8, §4 C03")

CLAIMED["C13"] = ("Proof of absence of run-time panics (index, slice, nil dereference, division, conversion, explicit panic, and the panicking preconditions of "
 "crypto/cipher block modes and constructors) for every input of the functions under contract, with termination measures on the hand-written BER reader: "
 "pkcs7 readObject/isIndefiniteTermination (BER index arithmetic), the SM9 signature/ciphertext/key parsers and block-mode Decrypt options, pkcs ECB/CBC decryptors, "
 "cfca DecryptBySM4CBC, SM2 ciphertext parsing/decryption (SM2 curve and legacy paths), ParseEnvelopedPrivateKey, NewPublicKey/NewPrivateKey, and the four padding Unpad functions. "
 "Sweep contracts (heapnonnil): references read from memory are assumed non-nil and callees without contract are havocked. "
 "Not covered (listed in DESIGN.md): smx509/pkcs8/pkcs7 top-level parsers built on encoding/asn1 reflection, PEM, CSR/CRL, cfca PKCS#12, wall-clock hangs (PBKDF iteration counts), assembly memory safety.",
 "Trusted: contracts of golang.org/x/crypto/cryptobyte readers, encoding/asn1.Unmarshal, crypto/cipher modes, crypto/elliptic, math/big, internal/sm2ec and internal/bigmod methods (assumed, /verif/stdlib/std.contracts); "
 "inputs shorter than 4 GB where a KDF length is derived from the input; package-level error values and tables are not reassigned.",
 "DESIGN.md §4 C13")

CLAIMED["C07"] = ("Partial proof at the mechanism level: the plain-layout split (C1C3C2/C1C2C3) returns exactly the documented windows; every ciphertext parser and both decryptors "
 "(SM2-curve and legacy) return a value or an error without panicking for every byte string; the all-zero test of steps A5/B4 is applied to t = KDF(x2||y2) on both sides "
 "(call-site assertion on the argument of the test); the public point used by encryption is invariant over retries (loop invariant over the point's memory; found D27). "
 "Not decided: functional round trip Decrypt(Encrypt(m)) == m over the curve arithmetic (scalar multiplication and KDF bytes are abstract here), ASN.1 builder output, layout conversion helpers.",
 "Trusted: internal/sm2ec point methods, internal/bigmod, crypto/elliptic, randomPoint (assumed frame), cryptobyte readers, sm3.Kdf length contract (proved under C01).",
 "DESIGN.md §4 C07")

CLAIMED["C06"] = ("Proof over assumed modular and group arithmetic (ghost integer values of bigmod.Nat, ghost group elements of SM2P256Point; trusted contracts): "
 "verifySM2EC returns true only if the parsed r and s are in [1, n-1], t = r+s mod n is not zero, the computed point is not the point at infinity and r == (e + x1) mod n for "
 "(x1, y1) = [s]G + [t]P - the GB/T 32918.2 verification equation; signSM2EC hands the encoder r = (e + x1) mod n and s = (1+d)^-1 (k - r d) mod n with the retry conditions "
 "r != 0, r + k != 0 (mod n), s != 0 (loop invariant over the cached inverse and e); the cached (d+1)^-1 is returned non-nil or with an error in every call history "
 "(sync.Once already spent or not - both histories are explored; found D5). Not decided: the algebraic identity that makes honest signatures verify (group law), the arithmetic itself, "
 "strict DER of the parser (cryptobyte, assumed), legacy (non-SM2 curve) sign/verify, ZA digest computation.",
 "Trusted: every internal/bigmod and internal/sm2ec method used (contracts in their zz_contracts_verif.go, marked trusted), hashToNat, randomPoint, cryptobyte readers, crypto/elliptic.",
 "DESIGN.md §4 C06")

CLAIMED["C12"] = ("Proof over a ghost random stream (the reader has delivered rndpos bytes; io.ReadFull either fills the buffer with the next bytes or fails) and the assumed bigmod arithmetic: "
 "sm2 randomPoint and sm9 randomScalar return a scalar whose value is exactly the last 32-byte big-endian block read (no bit masked, reduced or reused: any write to the buffer between the read and "
 "SetBytes breaks the obligation), accepted only if 0 < k < n (and k != n-1 where requested), each rejected candidate costing exactly one more block, an error from the source is returned with no point; "
 "ecdh GenerateKey returns the last block with byte 1 XOR 0x42 and NewPrivateKey refuses 0 and values >= n-1 and keeps a private copy; the SM9 master key constructors (the acceptance test of the master key samplers) compare against the group order minus one "
 "(bn256.OrderMinus1Bytes), so the accepted range is [1, N-2]. "
 "Not covered: the loops of the sm9 master-key generators themselves, sm2 legacy randFieldElement (masks excess bits for curves whose order is not a whole number of bytes), key exchange and WrapKey call sites, "
 "MaybeReadByte's own behaviour (assumed to consume 0 or 1 byte).",
 "Trusted: io.ReadFull, randutil.MaybeReadByte, bigmod Nat/Modulus contracts, sm2ec ScalarBaseMult, ecdh isLess, ConstantTimeAllZero.",
 "DESIGN.md §4 C12")

CLAIMED["C17"] = ("Partial proof of the reseed discipline, for every state and every argument: NeedReseed is true whenever the counter has passed the interval (and exactly then outside GM mode); "
 "Generate of the HMAC, Hash and CTR generators returns the reseed-required error whenever the gate is closed on entry - before any other check - and every failing Generate leaves the generator "
 "object, its V/key bytes and the output buffer exactly as they were (frame against the entry state); a successful Generate advances the counter by exactly one and is only possible with the counter "
 "within the interval; successful HMAC/CTR Reseed sets the counter to one and a failing one changes nothing; no index, slice or block-cipher precondition panic in the generate loops "
 "(hash sizes 20/32/48/64, block sizes 8/16); CtrDrbg.derive (Block_Cipher_df) is memory safe for every input and hands BCC the counter block followed by L || N || input || 0x80 zero-padded to the NEXT multiple of the block length and no further "
 "(layout and padded length for every input length; the BCC/encrypt chaining itself is not stated); DrbgPrng.Read returns exactly len(data) on success and 0 with the error otherwise, getEntropy reports short reads (ghost position of the source). "
 "Not decided: that the generated bytes equal SP 800-90A / GM/T 0105 (Hash_df, the BCC chaining of Block_Cipher_df, the CTR and HMAC updates are assumed frames only), the GM time-based gate (time.Since is arbitrary here), "
 "termination of Read, HashDrbg.Reseed and the constructors.",
 "Trusted: hash.Hash/hmac/cipher.Block interface contracts, the add*/update/bcc helpers (frames only), the object shape of a CtrDrbg (seedLength = keyLen + block size, established by its constructor, assumed on entry to Generate/Reseed), additional input below 2^31 bytes, DRBG interface contracts used by the wrapper, io.Reader.Read.",
 "DESIGN.md §4 C17")

CLAIMED["C09"] = ("Partial proof, of the strict-decoding clause only: for every byte string, G1/G2/GT Unmarshal and the compressed G1/G2 decoders return without panicking and accept only if every "
 "32-byte coordinate has a big-endian value below the field prime (canonical encoding), returning exactly the rest of the input (found and fixed D7: G1 ignored the coordinate errors); lessThanP, the range test behind every coordinate decoder, returns 1 exactly when the four limbs read as one 256-bit integer are below the prime in p2 "
 "(borrow chain over all four limbs, math/bits.Sub64 modelled arithmetically); the two G1 decoders succeed only after the curve test accepted the decoded point or, for the infinity encoding, after both coordinates compared equal to zero "
 "(the curve test itself is assumed). "
 "Not decided and not attempted: group laws, scalar multiplication, bilinearity and non-degeneracy of the pairing, the curve equation test itself and the G2/GT membership checks, re-encoding equality - all of them 256-bit "
 "nonlinear field arithmetic outside what SMT-discharged verification conditions reach.",
 "Trusted: gfP.Unmarshal (error exactly for values >= p: its limb loading and its use of lessThanP are assumed), gfP.Set, math/bits.Sub64; every field/curve operation in the decoders is havocked (nothing assumed, nothing proved about it).",
 "DESIGN.md §0.2, §4 C09")

CLAIMED["C14"] = ("Partial proof of the gates that keep a wrong key from coming out of a container: SEC1 parseECPrivateKey returns only scalars in [1, n-1] (found and fixed D23: zero was accepted), "
 "sm2.NewPrivateKey only scalars in [1, n-2] of exactly 32 bytes, ecdh NewPrivateKey refuses 0 and >= n-1 and copies the bytes; ParseEnvelopedPrivateKey returns a key only if its public key "
 "equals the one carried in the envelope and rejects encrypted keys of partial block length; the SM9 master private key constructors (signature and encryption) refuse scalars longer than 32 bytes before any reduction modulo the group order "
 "(so an over-long encoding never yields a different key) and return no key with an error; the pkcs ECB/CBC, cfca and sm9 key decoders under contract return a value or an error for every input "
 "(shared with C13). Not decided: exact round trip Parse(Marshal(k)) == k for any container (encoding/asn1 reflection, PEM, crypto/x509 are outside the verifier's subset), wrong-password rejection "
 "(depends on padding/ASN.1 parse of random bytes), GCM tag checks (crypto/cipher).",
 "Trusted: math/big and internal/bigmod ghost-valued contracts, encoding/asn1.Unmarshal, crypto/elliptic, ecdsa.PublicKey.Equal, cryptobyte readers.",
 "DESIGN.md §0.2, §4 C14")

CLAIMED["C10"] = ("Partial proof at the protocol-glue level, over ASSUMED abstract pairing-group operations (ghost element values for G1/G2/GT, PAIRING/GTMUL/G1MUL uninterpreted) and an assumed hash-to-range: "
 "SM9 Verify returns true only for a 65-byte uncompressed S, h in [1, n-1] and h == H2(M || w) with w = e(S, P_uid) * g^h, and hashes exactly M followed by the 384-byte encoding of w; "
 "Sign computes w = g^r for the sampled r (C12), h = H2(M || w), l = (r - h) mod n with a retry on l == 0, S = [l]dsA and returns the 32-byte encoding of h; the decryption core splits K into "
 "K1 || K2 at the option's key size, MACs C2 || K2, compares with C3 in constant time and decrypts with K1 only after a successful comparison; the raw and ASN.1 ciphertext parsers, block-mode "
 "options and key decoders return a value or an error for every input (shared with C13); the CBC and ECB decrypt options accept every well-formed length (IV plus at least one whole block, resp. a positive multiple of the block size): such an input always reaches the unpadding step and the result is exactly Unpad's; "
 "UnwrapKey writes nothing the caller can see (not the ciphertext its C1 slice points into). Not decided: completeness (honest signatures/ciphertexts verify/decrypt - pairing algebra), key exchange, "
 "the hash-to-range function body (H1/H2 over SM3; SetOverflowedBytes assumed), portability across CPU tiers.",
 "Trusted: internal/sm9/bn256 group and pairing operations (ghost-valued contracts), internal/bigmod, hash (H1/H2), GenerateUserPublicKey, master-key ScalarBaseMult, cryptobyte, EncrypterOpts interface contracts.",
 "DESIGN.md §0.2, §4 C10")

CLAIMED["C08"] = ("Partial proof of the SM2 key-agreement glue in sm2/sm2_keyexchange.go over ASSUMED integer and curve arithmetic (ghost values of big.Int; ECMUL/ECADD/ECBASE and bitwise AND uninterpreted): "
 "avf computes x~ = 2^w + (x & (2^w - 1)); mqv computes t = (d + x~_own * r) mod n and V = [t](P_peer + [x~_peer] R_peer) from exactly those operands; the peer's ephemeral point is stored and used only after the "
 "on-curve check (the scalar multiplication's precondition); own ephemeral point = [r]G; failure when V is the point at infinity; the shared key is KDF(xV || yV || Z_initiator || Z_responder) of the configured length "
 "for both roles (byte-level layout of the KDF input proved through the appends); a key is returned only after the optional confirmation value compared equal in constant time; the byte-oriented twin ecdh.(*sm2Curve).sm2mqv returns a shared point only through NewPublicKey (the place that refuses the point at infinity). "
 "Not decided: that both parties derive the same V (group algebra), the rest of the ecdh package's second implementation and the agreement of the two, the confirmation hash layout (sign is a frame-only assumption), ZA computation.",
 "Trusted: math/big and crypto/elliptic ghost-valued contracts, (*KeyExchange).sign, sm3.Kdf length contract, bigIntToBytes/FillBytes value contract.",
 "DESIGN.md §0.2, §4 C08")

CLAIMED["C11"] = ("Partial proof, of the seekable stream cipher (EEA / XORKeyStream, XORKeyStreamAt) over an ABSTRACT keystream: with the word generator assumed to produce exactly the next keystream words "
 "(ghost position and key/iv identity per generator state), a representation invariant of the cipher object (generator at the round boundary used + xLen, the buffer holds keystream bytes used..used+xLen-1, "
 "checkpoint k is the generator state at byte position k * bucketSize, bucket size a multiple of the round size, checkpoints cover every boundary below the generator position) is established by the constructors "
 "and preserved by reset, seek, appendState, XORKeyStream and XORKeyStreamAt; therefore, for every history of sequential and positioned calls, any lengths, any absolute offsets forwards or backwards and any bucket size, "
 "each call returns dst[j] = src[j] xor keystream byte (offset + j), in place or into a separate buffer, advances the position by len(src), never indexes out of range and terminates (loop measures). "
 "The MAC objects (128-EIA3 and the ZUC-256 MAC with 4/8/16-byte tags) over an ABSTRACT generator (a state is identified by its LFSR words and R1/R2; key/iv identity and word position are functions of it) and an ABSTRACT "
 "per-block accumulation: a representation invariant over a ghost message (buffer fill = length mod 16, buffer = last bytes of the message, generator position = initial + tag words + 4 + 4 per absorbed block, the four window "
 "key words, tag words = fold of the block function over the absorbed blocks) is established by NewHash/NewHash256 and Reset from ANY prior state and kept by Write for every length and every split, so the object's content is a "
 "function of (initial state, message) only; Sum works on a copy (incl. the ZUC-256 tag words) and leaves every field and the ghost message unchanged; Finish absorbs the whole bytes, and returns the object to the initial view; "
 "checkSum is memory safe for every buffer fill, 0..7 extra bits and the three tag sizes, absorbs the tail whenever bytes are buffered or extra bits are given, places the extra byte behind the buffered ones and draws exactly the key words the tail needs. "
 "Not decided: the keystream itself (LFSR, bit reorganisation, F, S-boxes need bit-vector reasoning; assembly and generic generators are assumed), the bit-level accumulation inside a block and in the tail (so known defect D8 of DESIGN.md "
 "section 5 - wrong ZUC-256 tail for 8/16-byte tags when more than 32 bits remain, re-found independently by a seeding sub-agent - still has no failing obligation), stream positions at or above 2^62 bytes.",
 "Trusted: genKeyStream/genKeyStreamRev32/genKeywords (assumed contracts), block/block256 (assembly round function or generic bit loop = fold of the abstract block function, window sliding by four words), newZUCState, math/bits.RotateLeft32, subtle.XORBytes, alias.InexactOverlap; "
 "the generator is idealised as never returning to an earlier state; callers do not pass slices aliasing the object's internal buffers.",
 "DESIGN.md §0.2, §0.8, §4 C11")

CLAIMED["C04"] = ("Partial proof, of the generic (pure Go) CCM in cipher/ccm.go over an abstract 128-bit block cipher and an assumed CTR stream: the counter block A_0 (flags L-1, nonce, zero counter) and the CTR start value 1; "
 "B_0 = flags || nonce || l(m) with flags = 64*[a present] + 8*((M-2)/2) + (L-1) for every nonce size 7..13 and tag size 4..16 (49 configurations), the associated-data length encoding (2 bytes below 2^16-2^8, ff fe + 4 bytes below 2^32, "
 "ff ff + 8 bytes) followed by the first bytes of a zero padded, then the rest of a, then the plaintext; Seal returns dst || (P xor keystream) || T, writes only the appended region and authenticates the plaintext as given also when sealing in place "
 "(found and fixed D28: the tag was computed after the plaintext had been overwritten); Open compares the whole received tag in constant time, returns plaintext only after a match and otherwise returns nil with the output region zeroed; "
 "the constructor admits exactly even tag sizes 4..16 and nonce sizes 7..13; cmac is proved for every length: out becomes the CBC-MAC chaining value over the data zero-padded to whole blocks, started from its old content (recursive spec, loop invariant). "
 "GCM glue: the fused-assembly AEAD (*gcmAsm).Seal only appends (result = dst followed by len(plaintext)+tagSize bytes, dst's visible part unchanged) and Open returns an error - never panics - for an input shorter than the tag, compares exactly the last tagSize "
 "bytes of the input, returns plaintext only after ConstantTimeCompare == 1 and otherwise nil with the output region zeroed, writing only the appended region; gcmInc32 of the table-driven GCM is +1 mod 2^32 on the last four bytes, big endian, the other twelve unchanged. "
 "Not decided: GHASH and the counter-mode bytes of GCM (carry-less multiplication; the fused assembly is assumed to write only its outputs), the table-driven GCM beyond inc32, the SM4-specific CCM path, "
 "the composition of auth's three cmac calls into one RFC 3610 tag formula, equality of the final tags with test vectors.",
 "Trusted: crypto/cipher.NewCTR and Stream.XORKeyStream (abstract stream), cipher.Block interface, gcmSm4Data/Finish/Enc/Dec (frames), (*sm4CipherAsm).encrypt, MaxLength, subtle.XORBytes/ConstantTimeCompare, alias.InexactOverlap; Open's dst does not overlap the received tag.",
 "DESIGN.md §0.2, §0.8, §4 C04")

CLAIMED["C16"] = ("Partial proof of the SignedData verification gates and of the BER reader: verifySignature returns nil only if - with authenticated attributes present - the messageDigest attribute compared equal "
 "(constant time) with the digest of exactly the message content (or with the content itself in digest mode) and the signature was then checked over the DER of the attributes, otherwise over the content; "
 "always with the certificate selected by the signer's issuer and serial number and with the signer's own signature value; and, when a trust store is given, only after the chain verification of that certificate "
 "succeeded; verifyWithChain requires at least one signer and verifies every signer in turn (a missing loop or a skipped signer fails an obligation); the hand-written BER reader (readObject, "
 "isIndefiniteTermination) never indexes outside its input and terminates (measure) for every byte string; lengthLength (DER length octets of the BER to DER re-encoder) returns the minimal number of octets for every non-negative int "
 "(256^(n-1) <= i < 256^n). Not decided: that no alteration of an encoded message still verifies (whole-message property over "
 "encoding/asn1 and x509), signing (NewSignedData/AddSigner/Finish), EnvelopedData/EncryptedData recipient lookup and decryption, SignedAndEnvelopedData, ber2der leaving DER unchanged beyond the length octets, cfca wrappers.",
 "Trusted: getCertFromCertsByIssuerAndSerial, unmarshalAttribute, marshalAttributes, getHashForOID/newHash, verifyCertChain, Certificate.CheckSignature(WithDigest) (frames only), hash.Hash interface, subtle.ConstantTimeCompare.",
 "DESIGN.md §0.2, §4 C16")

CLAIMED["C15"] = ("Partial proof of the certificate signature gates: CheckSignatureFrom returns nil only if the parent is a CA (basic constraints valid with cA; a v3 parent without basic constraints is refused), its key usage - "
 "when present - contains certSign, its key algorithm is known, and checkSignature accepted the child's TBS bytes and signature value under the parent's public key; checkSignature and CheckSignatureWithDigest return nil "
 "only if the verification primitive matching both the signature algorithm's key type and the key's dynamic type accepted exactly the given signature (SM2-with-SM3: the unhashed message goes to the SM2 verifier, which "
 "computes ZA; a digest of the wrong length is refused; MD5 refused, SHA-1 only when allowed); in chain building a candidate parent extends a chain only after CheckSignatureFrom and then isValid (for its role) returned nil. "
 "Not decided: certificate/CSR/CRL creation and the parse round trip (encoding/asn1 reflection), isValid's own rules (validity period, name constraints, path length, EKU nesting), that altering any signed byte is detected "
 "(rests on the primitives), CRL and CSR signature entry points.",
 "Trusted: rsa/ecdsa/ed25519/sm2 verification primitives, crypto.Hash, isRSAPSS, the signature algorithm table (its contents are not known to the verifier), isValid, alreadyInChain, pool constraint callbacks.",
 "DESIGN.md §0.2, §4 C15")

CLAIMED["C02"] = ("Partial proof, of the Go glue around the SM4 block function only: NewCipher (public and internal) returns an error exactly for keys that are not 16 bytes long and otherwise a 16-byte block cipher; "
 "the block-batch entry points EncryptBlocks/DecryptBlocks panic exactly on short buffers or inexact overlap, call the assembly routine only with slices for which its length-dependent batch size (one batch, or two when src is exactly "
 "two batches long - read off the assembly and assumed) stays inside both buffers, and write only dst[0..n] for that n (found and fixed D29: a one-batch dst was overrun); on every tier (4-block and 8-block batches) they hand the assembly exactly the first two batches of dst and src "
 "when the caller gave exactly two and dst has room, and exactly the first batch otherwise. "
 "Not decided: that the 32 rounds equal GB/T 32907 (S-box tables, rotations and the XOR network need bit-vector reasoning; the verifier's bit-vector mode is a skeleton), the key schedule, agreement of the AES-NI/AVX2/AVX/SSE/pure-Go tiers, "
 "decryption inverting encryption - i.e. the cryptographic content of the property.",
 "Trusted: encryptBlocksAsm (assumed contract), newCipher dispatch, alias.InexactOverlap.",
 "DESIGN.md §0.2, §4 C02")

CLAIMED["C05"] = ("Partial proof, of the decoding and scalar-normalisation glue only: SM2P256Point.SetBytes accepts exactly the three documented forms (one zero byte, 65 bytes starting with 4, 33 bytes starting with 2 or 3), only "
 "coordinates whose big-endian value is below the field prime, only after the curve check returned nil (uncompressed) or the square root exists (compressed), never panics for any byte string, and leaves the receiver "
 "untouched whenever it reports an error; normalizeScalar hands the point arithmetic a 32-byte value equal to the scalar itself when it is at most 32 bytes long and to the scalar reduced modulo the group order otherwise. "
 "Not decided: that point addition, doubling, (base-point) scalar multiplication and inversion agree with exact integer arithmetic - 256-bit nonlinear field arithmetic in assembly and fiat-generated code, outside what "
 "SMT-discharged verification conditions reach; these operations are exactly what C06/C07/C08/C12 assume as ghost-valued contracts; the Booth recoding and table selection (bit-vector reasoning); encode/decode identity.",
 "Trusted: p256BigToLittle, p256LessThanP, p256CheckOnCurve, p256Sqrt, p256Mul and the other field primitives (frames and the meaning of the two predicates), math/big ghost-valued contracts (FillBytes is assumed not to overflow the buffer).",
 "DESIGN.md §0.2, §4 C05")

NOT_APPLICABLE = {
 "C02": "Not reached by the contract technique in this build: the SM4 round function (S-box tables, 32-bit rotations, XOR network) needs the bit-vector mode of the verifier, which exists only as a skeleton; the AES-NI/AVX assembly tiers are outside any Go-level contract. The Go wrappers around the SM4 assembly that cipher modes use are covered under C03. No other technique was substituted.",
 "C04": "GCM/CCM: table-driven GHASH and the fused SM4-GCM assembly need bit-vector reasoning over carry-less multiplication that the arith-mode VC generator cannot express; CCM's Go glue was planned but not reached in this build.",
 "C05": "Field and point arithmetic of SM2 P-256 (assembly and fiat-generated limb code): 256-bit nonlinear modular arithmetic is not decidable by the SMT back ends behind a self-written VC generator in the time available. The behaviour of these packages is exactly what C06/C07/C12 assume as trusted ghost-valued contracts (internal/sm2ec/zz_contracts_verif.go, internal/bigmod/zz_contracts_verif.go).",
 "C08": "Key agreement rests on the same unproved curve arithmetic as C05 plus multi-call protocol state across two parties; no per-function contract within reach expresses agreement of the two derived keys.",
 "C09": "Pairing-group algebra (Miller loop, final exponentiation, group laws, bilinearity) is nonlinear arithmetic over a 256-bit prime field and its extensions, outside the reach of SMT-discharged VCs. The strict-decoding clause (defect D7: gfP.Unmarshal errors ignored in G1/G2 Unmarshal) is recorded in DESIGN.md section 5 but the decoders are not under contract in this build.",
 "C10": "Protocol-level completeness/soundness of SM9 sign/wrap/encrypt/key exchange depends on the pairing algebra (C09). The parts within reach are decided under other properties: parser and decrypt safety (C13), the secret scalar sampler (C12), the KDF (C01).",
 "C11": "ZUC: the 31-bit LFSR, bit reorganisation and S-box network need the bit-vector mode (skeleton only). The seek/checkpoint state machine and the EIA tail handling (known defect D8 of section 5) were planned over an abstract keystream but not reached in this build.",
 "C14": "Round trip of key containers runs through encoding/asn1 reflection, crypto/x509 and PEM; a whole-structure encode/decode inverse over reflection-driven code is outside the verifier's subset. The scalar range gates and decrypt paths within reach are decided under C13 (pkcs/cfca/enveloped key decrypt, NewPrivateKey/NewPublicKey) and C12 (ecdh NewPrivateKey range refusal).",
 "C15": "X.509 creation, parsing and chain verification are dominated by crypto/x509-derived code with maps, reflection-based ASN.1 and time; no contract within reach expresses chain validity. Not attempted beyond the parser safety parts of C13.",
 "C16": "PKCS#7 sign/verify/envelope correctness is a whole-message property over encoding/asn1 and certificate handling. The hand-written BER reader (readObject) is proved panic-free and terminating under C13; ber2der idempotence on DER input was planned but not reached.",
 "C20": "Concurrency: the technique (sequential weakest-precondition reasoning over go/ssa) has no thread model, no happens-before relation and no schedule exploration. The only history-dependent behaviour decided is the sync.Once caching of C06 (both histories explored sequentially).",
}

PENDING = "contracts for this property are not written yet in this round (work in progress; see DESIGN.md §7 order of work)"

def main():
    ids = [json.loads(l)["id"] for l in open("/verif/properties.jsonl")]
    hooks = subprocess.run(["git", "-C", "/repo", "log", "--format=%H %s"], capture_output=True, text=True).stdout.splitlines()
    hook_commits = [l.split()[0] for l in hooks if " verif:" in l or l.split(" ",1)[1].startswith("verif:")]
    m = {
     "version": 1,
     "setup_cmd": "cd /verif/engine && GOFLAGS=-mod=mod GOPROXY=off GOSUMDB=off GOTOOLCHAIN=local go build -o ../bin/gvc .",
     "hooks": {
        "guard": "verif",
        "enable": "go build tag: -tags verif (comment-only contract files zz_contracts_verif.go plus ghost lemma functions that are never called)",
        "baseline_off_cmd": "cd /repo && go test -mod=mod -json -vet=off -count=1 -timeout 25m ./...",
        "source_commits": hook_commits,
        "add_only": True,
     },
     "engines": [{"name": "gvc", "path": "/verif/engine", "serves_properties": sorted(CLAIMED),
                  "kind_free_text": "self-written deductive verifier for Go: go/ssa symbolic execution with loop invariants and modular callee contracts -> SMT-LIB obligations -> z3 4.8.12 / z3 5.1.0 / cvc5 1.0.3 race"}],
     "checks": [],
     "not_applicable": [],
     "notes": "See DESIGN.md. Exit codes: 0 held (KNOWN-FINDING lines allowed), 1 VIOLATION, 2 engine error.",
    }
    for pid in ids:
        if pid in CLAIMED:
            text, note, ref = CLAIMED[pid]
            m["checks"].append({
              "property_id": pid,
              "quick_cmd": f"./check {pid} quick",
              "thorough_cmd": f"./check {pid} thorough",
              "evidence_file": f"/verif/evidence/{pid}.json",
              "replay_cmd_template": "./check --replay {path}",
              "engine": "gvc",
              "level_claimed": {"category": "proof", "text": text, "design_ref": ref},
              "level_note": note,
              "technique": TECH,
            })
        else:
            m["not_applicable"].append({"property_id": pid, "reason": NOT_APPLICABLE.get(pid, PENDING)})
    json.dump(m, open("/verif/MANIFEST.json", "w"), indent=1)
    print("claimed", sorted(CLAIMED), "n/a", len(m["not_applicable"]))

main()
