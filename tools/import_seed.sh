#!/bin/sh
# usage: import_seed.sh <agent seed dir> <new id, e.g. C11-6>
# Copies a sub-agent's seed (patch.diff, demo_test.go, meta.json) into /verif/seeded/<id>/ and confirms it in a
# scratch worktree (tools/verify_seed.sh): demo passes on the clean tree, existing tests pass with the patch,
# demo fails with the patch.
set -u
src=$1; id=$2
dst=/verif/seeded/$id
mkdir -p $dst
cp $src/patch.diff $src/demo_test.go $dst/
pkg=$(python3 -c "import json;print(json.load(open('$src/meta.json'))['pkg'])")
python3 - "$src/meta.json" "$dst/meta.json" "$id" <<'P'
import json,sys
m=json.load(open(sys.argv[1]))
out={"id":sys.argv[3],"property":m.get("property"),"pkg":m.get("pkg"),"files":m.get("files"),"what":m.get("what"),"manifests_when":m.get("manifests_when"),"agent_ran":m.get("ran")}
json.dump(out,open(sys.argv[2],"w"),indent=1)
P
res=$(GODEBUG=x509sha1=1 /verif/tools/verify_seed.sh $dst $pkg 2>&1 | tail -1)
echo "$id ($pkg): $res"
python3 - "$dst/meta.json" "$res" <<'P'
import json,sys
m=json.load(open(sys.argv[1])); m["confirmed"]=sys.argv[2]; m["suite_passes"]=("patched existing tests: pass" in sys.argv[2])
json.dump(m,open(sys.argv[1],"w"),indent=1)
P
