; ZUC MACs (128-EIA3, ZUC-256 MAC) at the level of 16-byte blocks (C11).
; ZGEN: abstract identity of a generator state, a function of the values that determine every later
; output (the 16 LFSR words and R1, R2); ZGK/ZGP: the key/iv identity and the number of 32-bit words
; produced so far; ZKW kid i: word i of the keystream of kid.
(declare-fun ZGEN (Blk Int Int) Int)
(declare-fun ZGK (Int) Int)
(declare-fun ZGP (Int) Int)
(declare-fun ZKW (Int Int) Int)
(assert (forall ((k Int) (i Int)) (! (and (<= 0 (ZKW k i)) (<= (ZKW k i) 4294967295)) :pattern ((ZKW k i)))))
; EIAB t kid p b: the 32-bit tag accumulator after absorbing the 16-byte block b with the key words
; p .. p+4 of kid's keystream, starting from t (for each set message bit i: t ^= 32-bit window at bit i)
(declare-fun EIAB (Int Int Int Blk) Int)
(assert (forall ((t Int) (k Int) (p Int) (b Blk)) (! (and (<= 0 (EIAB t k p b)) (<= (EIAB t k p b) 4294967295)) :pattern ((EIAB t k p b)))))
; EIAF kid p0 t0 a o n: accumulator after n blocks of a[o..], the first block using key words p0..p0+4
(define-fun-rec EIAF ((kid Int) (p0 Int) (t0 Int) (a (Array Int Int)) (o Int) (n Int)) Int
  (ite (<= n 0) t0 (EIAB (EIAF kid p0 t0 a o (- n 1)) kid (+ p0 (* 4 (- n 1))) (blk16 a (+ o (* 16 (- n 1)))))))
; ZUC-256 MAC: the tag accumulator is tw = 1, 2 or 4 words; tpk packs its first tw words (the rest do not matter)
(define-fun tpk ((t (Array Int Int)) (tw Int)) Blk (pack8 (select t 0) (ite (> tw 1) (select t 1) 0) (ite (> tw 2) (select t 2) 0) (ite (> tw 2) (select t 3) 0) 0 0 0 0))
(declare-fun EIA2B (Blk Int Int Int Blk) (Array Int Int))
(assert (forall ((t Blk) (k Int) (p Int) (w Int) (b Blk) (j Int)) (! (and (<= 0 (select (EIA2B t k p w b) j)) (<= (select (EIA2B t k p w b) j) 4294967295)) :pattern ((select (EIA2B t k p w b) j)))))
; EIA2F kid p0 tw t0 a o n: accumulator words after n blocks of a[o..], first block using key words from p0
(define-fun-rec EIA2F ((kid Int) (p0 Int) (tw Int) (t0 (Array Int Int)) (a (Array Int Int)) (o Int) (n Int)) (Array Int Int)
  (ite (<= n 0) t0 (EIA2B (tpk (EIA2F kid p0 tw t0 a o (- n 1)) tw) kid (+ p0 (* 4 (- n 1))) tw (blk16 a (+ o (* 16 (- n 1)))))))
; ZKWARR kid p: the keystream words from position p on, as an array
(declare-fun ZKWARR (Int Int) (Array Int Int))
(assert (forall ((k Int) (p Int) (j Int)) (! (= (select (ZKWARR k p) j) (ZKW k (+ p j))) :pattern ((select (ZKWARR k p) j)))))
