; SM3 (GB/T 32905) at the level of the compression function: SM3CF is uninterpreted here (the pure-Go
; compression is related to the standard's round functions separately); the chaining value is an array of 8 words,
; a message block is 16 big-endian words.
(declare-fun SM3CF (Blk Blk) (Array Int Int))
(assert (forall ((s Blk) (b Blk) (i Int)) (! (and (<= 0 (select (SM3CF s b) i)) (<= (select (SM3CF s b) i) 4294967295)) :pattern ((select (SM3CF s b) i)))))
(define-fun w32be ((a (Array Int Int)) (o Int)) Int (+ (* 16777216 (select a o)) (* 65536 (select a (+ o 1))) (* 256 (select a (+ o 2))) (select a (+ o 3))))
(define-fun blk64 ((a (Array Int Int)) (o Int)) Blk (pack16 (w32be a (+ o 0)) (w32be a (+ o 4)) (w32be a (+ o 8)) (w32be a (+ o 12)) (w32be a (+ o 16)) (w32be a (+ o 20)) (w32be a (+ o 24)) (w32be a (+ o 28)) (w32be a (+ o 32)) (w32be a (+ o 36)) (w32be a (+ o 40)) (w32be a (+ o 44)) (w32be a (+ o 48)) (w32be a (+ o 52)) (w32be a (+ o 56)) (w32be a (+ o 60))))
(define-fun st8 ((h (Array Int Int))) Blk (pack8 (select h 0) (select h 1) (select h 2) (select h 3) (select h 4) (select h 5) (select h 6) (select h 7)))
(declare-fun SM3IV () (Array Int Int))
(assert (and (= (select SM3IV 0) 1937774191) (= (select SM3IV 1) 1226093241) (= (select SM3IV 2) 388252375) (= (select SM3IV 3) 3666478592) (= (select SM3IV 4) 2842636476) (= (select SM3IV 5) 372324522) (= (select SM3IV 6) 3817729613) (= (select SM3IV 7) 2969243214)))
; SM3F h0 a o n : chaining value after n 64-byte blocks of a[o..] starting from h0
(define-fun-rec SM3F ((h0 (Array Int Int)) (a (Array Int Int)) (o Int) (n Int)) (Array Int Int)
  (ite (<= n 0) h0 (SM3CF (st8 (SM3F h0 a o (- n 1))) (blk64 a (+ o (* 64 (- n 1)))))))
; padding of a message of l bytes: 0x80, zeros, 64-bit big-endian bit length; SM3T l = number of 0x80/zero bytes
(define-fun SM3T ((l Int)) Int (ite (< (mod l 64) 56) (- 56 (mod l 64)) (- 120 (mod l 64))))
(declare-fun SM3PADARR (Int) (Array Int Int))
(define-fun be64sum ((a (Array Int Int)) (o Int)) Int (+ (* 72057594037927936 (select a o)) (* 281474976710656 (select a (+ o 1))) (* 1099511627776 (select a (+ o 2))) (* 4294967296 (select a (+ o 3))) (* 16777216 (select a (+ o 4))) (* 65536 (select a (+ o 5))) (* 256 (select a (+ o 6))) (select a (+ o 7))))
(assert (forall ((l Int)) (! (= (select (SM3PADARR l) 0) 128) :pattern ((SM3PADARR l)))))
(assert (forall ((l Int) (j Int)) (! (=> (and (< 0 j) (< j (SM3T l))) (= (select (SM3PADARR l) j) 0)) :pattern ((select (SM3PADARR l) j)))))
(assert (forall ((l Int) (j Int)) (! (and (<= 0 (select (SM3PADARR l) j)) (<= (select (SM3PADARR l) j) 255)) :pattern ((select (SM3PADARR l) j)))))
(assert (forall ((l Int)) (! (=> (and (<= 0 l) (< l 2305843009213693952)) (= (be64sum (SM3PADARR l) (SM3T l)) (* 8 l))) :pattern ((SM3PADARR l)))))
; big-endian 32-bit counter block, digest bytes, and the KDF of GB/T 32918.4 5.4.3
(declare-fun BE32ARR (Int) (Array Int Int))
(assert (forall ((c Int) (j Int)) (! (and (<= 0 (select (BE32ARR c) j)) (<= (select (BE32ARR c) j) 255)) :pattern ((select (BE32ARR c) j)))))
(assert (forall ((c Int)) (! (=> (and (<= 0 c) (< c 4294967296)) (= (+ (* 16777216 (select (BE32ARR c) 0)) (* 65536 (select (BE32ARR c) 1)) (* 256 (select (BE32ARR c) 2)) (select (BE32ARR c) 3)) c)) :pattern ((BE32ARR c)))))
; words of SM3(m[0..l))
(declare-fun SM3W ((Array Int Int) Int) (Array Int Int))
(assert (forall ((m (Array Int Int)) (l Int)) (! (= (SM3W m l) (SM3F SM3IV (CAT m l (SM3PADARR l) 0 (+ (SM3T l) 8)) 0 (div (+ l (SM3T l) 8) 64))) :pattern ((SM3W m l)))))
; the words of a digest are 32-bit values (consequence of the SM3CF range axiom and the IV; lemma sm3f_range)
(assert (forall ((m (Array Int Int)) (l Int) (i Int)) (! (=> (and (<= 0 i) (< i 8)) (and (<= 0 (select (SM3W m l) i)) (<= (select (SM3W m l) i) 4294967295))) :pattern ((select (SM3W m l) i)))))
