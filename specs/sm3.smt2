; SM3 (GB/T 32905) at the level of the compression function: SM3CF is uninterpreted here (the pure-Go
; compression is related to the standard's round functions separately); the chaining value is an array of 8 words,
; a message block is 16 big-endian words.
(declare-fun SM3CF (Blk Blk) (Array Int Int))
(assert (forall ((s Blk) (b Blk) (i Int)) (! (and (<= 0 (select (SM3CF s b) i)) (<= (select (SM3CF s b) i) 4294967295)) :pattern ((select (SM3CF s b) i)))))
(define-fun w32be ((a (Array Int Int)) (o Int)) Int (+ (* 16777216 (select a o)) (* 65536 (select a (+ o 1))) (* 256 (select a (+ o 2))) (select a (+ o 3))))
(define-fun blk64 ((a (Array Int Int)) (o Int)) Blk (pack16 (w32be a (+ o 0)) (w32be a (+ o 4)) (w32be a (+ o 8)) (w32be a (+ o 12)) (w32be a (+ o 16)) (w32be a (+ o 20)) (w32be a (+ o 24)) (w32be a (+ o 28)) (w32be a (+ o 32)) (w32be a (+ o 36)) (w32be a (+ o 40)) (w32be a (+ o 44)) (w32be a (+ o 48)) (w32be a (+ o 52)) (w32be a (+ o 56)) (w32be a (+ o 60))))
(define-fun st8 ((h (Array Int Int))) Blk (pack8 (select h 0) (select h 1) (select h 2) (select h 3) (select h 4) (select h 5) (select h 6) (select h 7)))
(define-fun SM3IV () (Array Int Int) (store (store (store (store (store (store (store (store ((as const (Array Int Int)) 0) 0 1937774191) 1 1226093241) 2 388252375) 3 3666478592) 4 2842636476) 5 372324522) 6 3817729613) 7 2969243214))
; SM3F h0 a o n : chaining value after n 64-byte blocks of a[o..] starting from h0
(define-fun-rec SM3F ((h0 (Array Int Int)) (a (Array Int Int)) (o Int) (n Int)) (Array Int Int)
  (ite (<= n 0) h0 (SM3CF (st8 (SM3F h0 a o (- n 1))) (blk64 a (+ o (* 64 (- n 1)))))))
; padding of a message of l bytes: 0x80, zeros, 64-bit big-endian bit length; SM3T l = number of 0x80/zero bytes
(define-fun SM3T ((l Int)) Int (ite (< (mod l 64) 56) (- 56 (mod l 64)) (- 120 (mod l 64))))
(define-fun pow256 ((k Int)) Int (ite (= k 0) 1 (ite (= k 1) 256 (ite (= k 2) 65536 (ite (= k 3) 16777216 (ite (= k 4) 4294967296 (ite (= k 5) 1099511627776 (ite (= k 6) 281474976710656 (ite (= k 7) 72057594037927936 0)))))))))
(declare-fun SM3PADARR (Int) (Array Int Int))
(assert (forall ((l Int) (j Int)) (! (= (select (SM3PADARR l) j) (ite (= j 0) 128 (ite (< j (SM3T l)) 0 (mod (div (* 8 l) (pow256 (- (+ (SM3T l) 7) j))) 256)))) :pattern ((select (SM3PADARR l) j)))))
