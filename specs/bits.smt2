; Byte-wide bitwise operators used in arith mode (uninterpreted, with the facts the proofs need).
(declare-fun bor8 (Int Int) Int)
(assert (forall ((a Int) (b Int)) (! (=> (and (<= 0 a) (< a 128) (or (= b 0) (= b 128))) (and (= (bor8 a b) (+ a b)) (= (bor8 b a) (+ a b)))) :pattern ((bor8 a b)) :pattern ((bor8 b a)))))
(assert (forall ((a Int) (b Int)) (! (=> (and (<= 0 a) (<= a 255) (<= 0 b) (<= b 255)) (and (<= 0 (bor8 a b)) (<= (bor8 a b) 255))) :pattern ((bor8 a b)))))
