// bounded: pkg=github.com/emmansun/gmsm/internal/sm4
// bounded: function=encryptSm4Xts/encryptSm4XtsGB/decryptSm4Xts/decryptSm4XtsGB via (*xts).CryptBlocks
// bounded: tiers=avx2,avx,sse
// bounded: quick=avx2
// bounded: run=^TestVerifBoundedXTS
// bounded: bound=every length 16..400 (quick: 16..200), IEEE and GB tweak orders, both directions, separate buffers and in place, compared with the generic XTS mode over the pure-Go block function; canaries of 32 bytes after dst
package sm4

import (
	"bytes"
	"crypto/cipher"
	"fmt"
	"math/rand"
	"os"
	"strconv"
	"testing"

	gxts "github.com/emmansun/gmsm/internal/cipher/xts"
)

func TestVerifBoundedXTS(t *testing.T) {
	seed, _ := strconv.Atoi(os.Getenv("VERIF_SEED"))
	r := rand.New(rand.NewSource(int64(seed) + 3))
	maxLen := 400
	if os.Getenv("VERIF_TIER") == "quick" {
		maxLen = 200
	}
	key := make([]byte, 16)
	tkey := make([]byte, 16)
	tweak := make([]byte, 16)
	r.Read(key)
	r.Read(tkey)
	r.Read(tweak)
	asmBlock, err := newCipher(key)
	if err != nil {
		t.Fatal(err)
	}
	ab, ok := asmBlock.(*sm4CipherAsm)
	if !ok {
		fmt.Println("BOUNDED-CASES 0")
		t.Skip("no assembly cipher on this tier")
	}
	genFunc := func(k []byte) (cipher.Block, error) { return newCipherGeneric(k) }
	t2, _ := newCipherGeneric(tkey)
	cases := 0
	for _, gb := range []bool{false, true} {
		for n := 16; n <= maxLen; n++ {
			src := make([]byte, n)
			r.Read(src)
			var et [16]byte
			t2.Encrypt(et[:], tweak)
			for _, dir := range []string{"enc", "dec"} {
				var ref cipher.BlockMode
				var asm cipher.BlockMode
				if dir == "enc" {
					ref, _ = gxts.NewXTSEncrypter(genFunc, key, tkey, tweak, gb)
					asm = ab.NewXTSEncrypter(&et, gb)
				} else {
					ref, _ = gxts.NewXTSDecrypter(genFunc, key, tkey, tweak, gb)
					asm = ab.NewXTSDecrypter(&et, gb)
				}
				want := make([]byte, n)
				ref.CryptBlocks(want, src)
				buf := make([]byte, n+32)
				for i := n; i < n+32; i++ {
					buf[i] = 0xA5
				}
				asm.CryptBlocks(buf[:n], src)
				cases++
				if !bytes.Equal(buf[:n], want) {
					t.Fatalf("XTS %s gb=%v len=%d: assembly differs from the generic mode", dir, gb, n)
				}
				for i := n; i < n+32; i++ {
					if buf[i] != 0xA5 {
						t.Fatalf("XTS %s gb=%v len=%d: write past dst at +%d", dir, gb, n, i-n)
					}
				}
				// in place
				if dir == "enc" {
					asm = ab.NewXTSEncrypter(&et, gb)
				} else {
					asm = ab.NewXTSDecrypter(&et, gb)
				}
				inplace := append([]byte(nil), src...)
				asm.CryptBlocks(inplace, inplace)
				cases++
				if !bytes.Equal(inplace, want) {
					t.Fatalf("XTS %s gb=%v len=%d in place: assembly differs from the generic mode", dir, gb, n)
				}
			}
		}
	}
	fmt.Printf("BOUNDED-CASES %d\n", cases)
}
