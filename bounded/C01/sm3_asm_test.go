// bounded: pkg=github.com/emmansun/gmsm/internal/sm3
// bounded: function=blockAVX2/blockSIMD/blockAMD64 (via block), blockMultBy4/8+copyResultsBy4/8 (via kdf)
// bounded: tiers=avx2,avx,sse,purego
// bounded: quick=avx2
// bounded: run=^TestVerifBounded
// bounded: bound=block: 1..9 blocks x 3 random states per tier vs blockGeneric; kdf: len(z) in 0..200 (every residue mod 64), keyLen in {1,31,32,33,96,127,128,129,255,256,257,300,513} vs kdfGeneric
package sm3

import (
	"bytes"
	"fmt"
	"math/rand"
	"os"
	"strconv"
	"testing"
)

// Differential stand-in for the assumed contracts of the assembly tiers: compression of whole blocks
// equals blockGeneric, and the lane KDF equals kdfGeneric. Bounded; never counted as proved.
func TestVerifBoundedSM3Asm(t *testing.T) {
	seed, _ := strconv.Atoi(os.Getenv("VERIF_SEED"))
	r := rand.New(rand.NewSource(int64(seed) + 1))
	cases := 0
	for nb := 1; nb <= 9; nb++ {
		for rep := 0; rep < 3; rep++ {
			p := make([]byte, 64*nb)
			r.Read(p)
			var d1, d2 digest
			for i := range d1.h {
				d1.h[i] = r.Uint32()
			}
			d2 = d1
			q := append([]byte(nil), p...)
			block(&d1, p)
			blockGeneric(&d2, q)
			cases++
			if d1.h != d2.h || !bytes.Equal(p, q) {
				t.Fatalf("block != blockGeneric for %d blocks (state %x, data %x)", nb, d2.h, q)
			}
		}
	}
	keyLens := []int{1, 31, 32, 33, 96, 127, 128, 129, 255, 256, 257, 300, 513}
	for zl := 0; zl <= 200; zl++ {
		z := make([]byte, zl)
		r.Read(z)
		for _, kl := range keyLens {
			var md1, md2 digest
			md1.Reset()
			md1.Write(z)
			md2 = md1
			limit := (kl + 31) / 32
			k1 := kdf(&md1, kl, limit)
			k2 := kdfGeneric(&md2, kl, limit)
			cases++
			if !bytes.Equal(k1, k2) {
				t.Fatalf("kdf != kdfGeneric for len(z)=%d keyLen=%d z=%x", zl, kl, z)
			}
		}
	}
	fmt.Printf("BOUNDED-CASES %d\n", cases)
}
