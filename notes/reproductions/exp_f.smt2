
(declare-sort Blk 0)
(declare-fun pack16 (Int Int Int Int Int Int Int Int Int Int Int Int Int Int Int Int) Blk)
(declare-fun xor8 (Int Int) Int)
(declare-fun ENC (Blk) (Array Int Int))
(define-fun XW ((t (Array Int Int)) (a (Array Int Int)) (off Int)) Blk (pack16 (xor8 (select t 0) (select a (+ off 0))) (xor8 (select t 1) (select a (+ off 1))) (xor8 (select t 2) (select a (+ off 2))) (xor8 (select t 3) (select a (+ off 3))) (xor8 (select t 4) (select a (+ off 4))) (xor8 (select t 5) (select a (+ off 5))) (xor8 (select t 6) (select a (+ off 6))) (xor8 (select t 7) (select a (+ off 7))) (xor8 (select t 8) (select a (+ off 8))) (xor8 (select t 9) (select a (+ off 9))) (xor8 (select t 10) (select a (+ off 10))) (xor8 (select t 11) (select a (+ off 11))) (xor8 (select t 12) (select a (+ off 12))) (xor8 (select t 13) (select a (+ off 13))) (xor8 (select t 14) (select a (+ off 14))) (xor8 (select t 15) (select a (+ off 15)))))
(declare-const ZERO (Array Int Int))
(assert (forall ((j Int)) (= (select ZERO j) 0)))
(define-fun-rec TAG ((a (Array Int Int)) (k Int)) (Array Int Int)
  (ite (<= k 0) ZERO (ENC (XW (TAG a (- k 1)) a (* 16 (- k 1))))))
; state at loop head
(declare-const src0 (Array Int Int))
(declare-const L Int) (declare-const k Int)
(declare-const tag (Array Int Int))
(assert (and (<= 0 k) (<= (* 16 k) L) (= (mod L 16) 0)))
; invariant: tag[0..16) == TAG(src0,k)[0..16)
(assert (forall ((j Int)) (=> (and (<= 0 j) (< j 16)) (= (select tag j) (select (TAG src0 k) j)))))
; loop cond: remaining > 0
(assert (> (- L (* 16 k)) 0))
; XORBytes(tag, tag, src[:16]) where src = src0[16k:]
(declare-const tag1 (Array Int Int))
(assert (forall ((j Int)) (=> (and (<= 0 j) (< j 16)) (= (select tag1 j) (xor8 (select tag j) (select src0 (+ (* 16 k) j)))))))
(assert (forall ((j Int)) (=> (not (and (<= 0 j) (< j 16))) (= (select tag1 j) (select tag j)))))
; Encrypt(tag,tag): tag2[j] = ENC(pack16(tag1[0..15]))[j]
(declare-const tag2 (Array Int Int))
(define-fun blk ((a (Array Int Int)) (off Int)) Blk (pack16 (select a (+ off 0)) (select a (+ off 1)) (select a (+ off 2)) (select a (+ off 3)) (select a (+ off 4)) (select a (+ off 5)) (select a (+ off 6)) (select a (+ off 7)) (select a (+ off 8)) (select a (+ off 9)) (select a (+ off 10)) (select a (+ off 11)) (select a (+ off 12)) (select a (+ off 13)) (select a (+ off 14)) (select a (+ off 15))))
(assert (forall ((j Int)) (=> (and (<= 0 j) (< j 16)) (= (select tag2 j) (select (ENC (blk tag1 0)) j)))))
(assert (forall ((j Int)) (=> (not (and (<= 0 j) (< j 16))) (= (select tag2 j) (select tag1 j)))))
; goal: invariant for k+1
(declare-const jj Int)
(assert (not (=> (and (<= 0 jj) (< jj 16)) (= (select tag2 jj) (select (TAG src0 (+ k 1)) jj)))))
(check-sat)
